#!/usr/bin/env python3
"""generates lean/EpdVerif/Props/E2E/*.lean: per panel and full-frame entry point, the end-to-end
theorem "for EVERY buffer of the panel's size, after `new` and the entry point the controller
plane holds the (encoded) buffer", proved from the generic theorems `Ssd.ssd_e2e` / `Uc.uc_e2e`.

Reads `epdmodel e2e` (which blocks depend on the buffer; addressing state of the companion run),
writes one Lean file per panel, builds them, and drops the instances Lean rejects (listed in
Props/E2E/DROPPED.txt with the reason).  Run by hand when driver models change; the output is
committed and re-checked by Lean on every build."""
import os, re, subprocess, sys, json
ROOT = os.path.dirname(os.path.dirname(os.path.abspath(__file__)))
LEAN = os.path.join(ROOT, "lean")
OUT = os.path.join(LEAN, "EpdVerif", "Props", "E2E")
MODEL = os.path.join(LEAN, ".lake", "build", "bin", "epdmodel")

def camel(name):
    return name[0].upper() + name[1:]

OPS = {
    "upd": ("[.new, .upd b0]", 1), "updisp": ("[.new, .updisp b0]", 1), "old": ("[.new, .old b0]", 1),
    "newf": ("[.new, .newf b0]", 1), "updispnew": ("[.new, .updispnew b0]", 1), "color": ("[.new, .color b0 b1]", 2),
    "achro": ("[.new, .achro b0]", 1), "chro": ("[.new, .chro b0]", 1), "base": ("[.new, .base b0]", 1),
}

def enc_len(enc, n):
    return {"id": n, "inv": n, "bpp2": 2 * n, "bpp4": 4 * n, "lo": n // 2, "hi": n - n // 2}[enc]

def len_simp(enc):
    # rewriting (Enc.X.apply b).length to a numeral given h : b.length = N
    base = "flatten_single, Spec.Enc.apply"
    if enc == "id":
        return f"simp only [{base}, hA]"
    if enc == "inv":
        return f"simp only [{base}, List.length_map, hA]"
    if enc in ("lo", "hi"):
        return f"simp only [{base}, List.length_take, List.length_drop, hA]; first | done | decide"
    if enc == "bpp2":
        return "rw [flatten_single, Props.C01.enc_length]; simp only [hA]"
    if enc == "bpp4":
        return "rw [flatten_single, Props.C01.enc_length]; simp only [hA]"
    raise KeyError(enc)

def parse(feat, hist=False):
    out = subprocess.run([MODEL, "e2e"] + ([feat] if feat != "v3" else []) + (["hist"] if hist else []), capture_output=True, text=True, check=True).stdout
    rows = []
    for l in out.splitlines():
        if not l.startswith("E "):
            continue
        f = l.split(" ")
        d = dict(x.split("=", 1) for x in f[4:])
        holes = [tuple(h.split(":")) for h in d["holes"].split(",") if h]
        comps = d["comp"].split("|") if d["comp"] else []
        tg = [t.split(",") for t in d["targets"].split(";") if t]
        rows.append(dict(panel=f[1], fam=f[2], op=f[3], hist=d.get("hist", "fresh"), src=d.get("src", "").replace("~", " "), n=int(d["len"]), same=d["sameLen"] == "true", nopanic=d["nopanic"] == "true",
                         holes=[(int(i), int(c, 16), int(n), src) for (i, c, n, src) in holes], comps=comps,
                         targets=[(int(p), e.split(".")[-1], int(a)) for (p, e, a) in tg]))
    return rows

def plane_of(fam, c):
    if fam == "ssd":
        return {0x24: 0, 0x26: 1}.get(c)
    return {0x10: 0, 0x13: 1}.get(c)

ZS_USED = set()
KEYOF = {}
PER_BYTE = {"epd1in54b", "epd2in7b", "epd7in5"}

def theorem(row, feat, t):
    plane, enc, arg = t
    if row["panel"] in PER_BYTE:
        return None, "the driver sends the buffer through a per-byte re-encoding, one transfer per byte: the shape of the program depends on the buffer's spine (not reachable by this method; oracle on sample buffers)"
    fam = row["fam"]
    ns = "Ssd" if fam == "ssd" else "Uc"
    ops = re.sub(r"\(List\.replicate (\d+) 0\)", lambda m: f"z{m.group(1)}", row["src"])
    nbuf = 2 if "b1" in ops else 1
    n = row["n"]
    zs = sorted(set(int(x) for x in re.findall(r"\bz(\d+)\b", ops)) | {n})
    holes = row["holes"]
    cands = [(i, c, ln) for (i, c, ln, _) in holes if plane_of(fam, c) == plane]
    if any(src == "?" for (_, _, _, src) in holes):
        return None, "a buffer-dependent block is not a recognised encoding of an argument"
    if not cands or not row["same"] or not row["nopanic"]:
        return None, "no data block for the target plane / structure depends on the buffer"
    kt, ct, lt = cands[-1]
    if lt != enc_len(enc, n):
        return None, f"data block length {lt} is not the encoded buffer's {enc_len(enc, n)}"
    name = f"{row['panel']}_{row['op']}" + ("" if row["hist"] == "fresh" else f"_after_{row['hist']}") + f"_plane{plane}" + ("" if feat == "v3" else f"_{feat}")
    fe = "{}" if feat == "v3" else "{ v2 := true }"
    P = f"(Drivers.{camel(row['panel'])}.panel {fe})"
    bufs = "(b0 : Bytes) (h0 : b0.length = %d)" % n + (" (b1 : Bytes) (h1 : b1.length = %d)" % n if nbuf == 2 else "")
    ops0 = ops.replace("b0", f"z{n}").replace("b1", f"z{n}")
    barg = f"b{arg}"
    hA = f"h{arg}"
    encx = f"(Spec.Enc.{enc}.apply {barg})"
    def prog_form(e, b):
        if e == "lo":
            return f"({b}.take {n // 2})"
        if e == "hi":
            return f"({b}.drop {n // 2})"
        return f"(Spec.Enc.{e}.apply {b})"
    pfx = prog_form(enc, barg)
    # ShapesEq through the holes
    hyps = "h0, h1" if nbuf == 2 else "h0"
    zl = ", ".join(f"z{k}_len" for k in zs)
    NORM = (f"(by first | (simp only [Panel.blocks, Panel.progSeq, Panel.noPanic, Drivers.{camel(row['panel'])}.panel, driver_simp, "
            f"Option.getD, {zl}, {hyps}]; rfl) | rfl)")
    sh = []
    prev = -1
    for (i, c, ln, src) in holes:
        rel = i - prev - 1
        ok = "Or.inl rfl" if c in (0x24, 0x10) else "Or.inr rfl"
        sa, se = src.split("/")
        dx = f"(List.flatten [{prog_form(se, 'b' + sa)}])"
        dy = f"(List.flatten [{prog_form(se, f'z{n}')}])"
        if fam == "ssd":
            lp = len_simp(se).replace("hA", f"h{sa}")
            sh.append(f"    refine Ssd.shapesEq_hole _ _ {rel} {c} ({ok}) {NORM} ⟨{dx}, {dy}, {NORM}, {NORM}, ?_⟩ ?_")
            sh.append(f"    · have e1 : {dx}.length = {ln} := by")
            sh.append(f"        {lp}")
            sh.append(f"      rw [e1]; decide +kernel")
        else:
            sh.append(f"    refine Uc.shapesEq_hole _ _ {rel} {c} ({ok}) {NORM} ⟨{dx}, {dy}, {NORM}, {NORM}⟩ ?_")
        prev = i
    sh.append(f"    exact {ns}.shapesEq_of_eq {NORM}")
    okc = "Or.inl rfl" if ct in (0x24, 0x10) else "Or.inr rfl"
    L = []
    L.append("set_option maxRecDepth 1000000 in")
    if fam == "ssd":
        cf = row["comps"][[h[0] for h in holes].index(kt)].split(",")
        xs, xe, ys, ye, stride, rows = map(int, cf[:6])
        if cf[6] != "true" or xs != 0 or ys != 0:
            return None, (f"the controller is not ready for a full frame at the data block: window x {xs}..{xe} (bytes), y {ys}..{ye}, "
                          f"ready={cf[6]} (window not the panel's / counter not at its origin / Y-decrement addressing)")
        wb = xe + 1
        L.append(f"theorem {name} {bufs} :")
        L.append(f"    {P}.noPanic {ops} = true ∧")
        L.append(f"    ∀ (j : Nat) (hj : j < {encx}.length),")
        L.append(f"      (Ctrl.plane (Ctrl.run {P}.ctrl ({P}.blocks {ops})) {plane})[(j / {wb}) * {stride} + j % {wb}]? = some {encx}[j] := by")
        L.append(f"  refine ⟨{NORM}, ?_⟩")
        L.append(f"  have hs : Ssd.ShapesEq ({P}.blocks {ops}) ({P}.blocks {ops0}) := by")
        L += sh
        L.append(f"  have hk : ({P}.blocks {ops})[{kt}]? = some (.c {ct} (List.flatten [{pfx}])) := {NORM}")
        L.append(f"  have hlen : (List.flatten [{pfx}]).length = {lt} := by")
        L.append(f"    {len_simp(enc).replace('hA', hA)}")
        comp = f"((({P}.blocks {ops0}).take {kt}).foldl Ssd.feed (({P}.ctrl.ssd!).withPlanes #[] #[]))"
        L.append(f"  have main := Ssd.ssd_e2e_skip _ _ hs ({P}.ctrl.ssd!) (({P}.ctrl.ssd!).withPlanes #[] #[]) (Ssd.withPlanes_ctlEq ..) (Ssd.por_wf ..) {kt} {ct} _ hk")
        L.append(f"    ({okc}) {lt} {wb} {stride} hlen (by decide +kernel) (by decide +kernel)")
        L.append(f"  intro j hj")
        L.append(f"  have := main j (by rw [flatten_single]; exact hj)")
        L.append(f"  rw [show {P}.ctrl = .ssd ({P}.ctrl.ssd!) from rfl, Ctrl.run_ssd]")
        L.append(f"  simpa [Ctrl.plane, Ssd.planeOf, Ssd.planeOfCmd, flatten_single] using this")
    else:
        cf = row["comps"][[h[0] for h in holes].index(kt)].split(",")
        if cf[2] != "true":
            return None, "the controller is asleep or in partial mode when the data block arrives"
        L.append(f"theorem {name} {bufs} :")
        L.append(f"    {P}.noPanic {ops} = true ∧")
        L.append(f"    (Ctrl.plane (Ctrl.run {P}.ctrl ({P}.blocks {ops})) {plane}).toList = {encx} := by")
        L.append(f"  refine ⟨{NORM}, ?_⟩")
        L.append(f"  have hs : Uc.ShapesEq ({P}.blocks {ops}) ({P}.blocks {ops0}) := by")
        L += sh
        L.append(f"  have hk : ({P}.blocks {ops})[{kt}]? = some (.c {ct} (List.flatten [{pfx}])) := {NORM}")
        L.append(f"  have hlen : (List.flatten [{pfx}]).length = {lt} := by")
        L.append(f"    {len_simp(enc).replace('hA', hA)}")
        L.append(f"  have hsz : (Uc.planeU (Uc.planeOfCmd {ct}) ({P}.ctrl.uc!)).size = {lt} := by decide +kernel")
        L.append(f"  have main := Uc.uc_e2e_skip _ _ hs ({P}.ctrl.uc!) (({P}.ctrl.uc!).withData #[] #[] []) (Uc.withData_ctlEq ..) {kt} {ct} _ hk")
        L.append(f"    ({okc}) (by rw [hlen, hsz]) (by decide +kernel) (by decide +kernel)")
        L.append(f"  rw [show {P}.ctrl = .uc ({P}.ctrl.uc!) from rfl, Ctrl.run_uc]")
        if pfx != encx:
            L.append(f"  have he : {encx} = {pfx} := by simp [Spec.Enc.apply, {hA}]")
            L.append(f"  rw [he]")
        L.append(f"  simpa [Ctrl.plane, Uc.planeU, Uc.planeOfCmd, flatten_single] using main")
    ZS_USED.update(zs)
    return name, "\n".join(L) + "\n"

# ---------------------------------------------------------------------------------------------
# from-any-state instances (`--any`): `update_frame` alone, from ANY controller state satisfying
# the stated invariant (awake, entry mode 3 / not in partial mode, the panel's geometry)

def parse_any(feat):
    out = subprocess.run([MODEL, "e2eany"] + ([feat] if feat != "v3" else []), capture_output=True, text=True, check=True).stdout
    rows = []
    for l in out.splitlines():
        if not l.startswith("A "):
            continue
        f = l.split(" ")
        d = dict(x.split("=", 1) for x in f[4:])
        holes = [tuple(h.split(":")) for h in d["holes"].split(",") if h]
        rows.append(dict(panel=f[1], fam=f[2], op=f[3], src=d.get("src", ".upd~b0").replace("~", " "), d=d["d"], n=int(d["len"]), same=d["sameLen"] == "true", nopanic=d["nopanic"] == "true",
                         holes=[(int(i), int(c, 16), int(n), src) for (i, c, n, src) in holes], comps=d["comp"].split("|") if d["comp"] else [],
                         targets=[(int(p), e.split(".")[-1], int(a)) for (p, e, a) in [t.split(",") for t in d["targets"].split(";") if t]]))
    return rows

def theorem_any(row, feat, t):
    plane, enc, arg = t
    if row["panel"] in PER_BYTE:
        return None, "the driver sends the buffer through a per-byte re-encoding, one transfer per byte: the shape of the program depends on the buffer's spine (not reachable by this method; oracle on sample buffers)"
    fam = row["fam"]
    n = row["n"]
    holes = row["holes"]
    cands = [(i, c, ln) for (i, c, ln, _) in holes if plane_of(fam, c) == plane]
    if not cands or not row["same"] or not row["nopanic"] or any(src == "?" for (_, _, _, src) in holes):
        return None, "no recognisable data block for the target plane"
    kt, ct, lt = cands[-1]
    if lt != enc_len(enc, n):
        return None, f"data block length {lt} is not the encoded buffer's {enc_len(enc, n)}"
    fe = "{}" if feat == "v3" else "{ v2 := true }"
    P = f"(Drivers.{camel(row['panel'])}.panel {fe})"
    r, o, pf = row["d"].split(",")
    dvars = "(bg : Nat) (sm : UInt8) (od : List UInt8)"
    D = f"{{ bg := bg, refresh := .{r}, isOn := {o}, partialFlag := {pf}, sleepMode := sm, oldData := od }}"
    dtag = f"_{r}_{'on' if o == 'true' else 'off'}_{'pf' if pf == 'true' else 'nopf'}"
    split = "  (\n"
    name = f"{row['panel']}_{row['op']}_from_any_state{dtag}_plane{plane}" + ("" if feat == "v3" else "_v2")
    osrc = row["src"]
    nbuf = 2 if "b1" in osrc else 1
    bufs = f"(b0 : Bytes) (h0 : b0.length = {n})" + (f" (b1 : Bytes) (h1 : b1.length = {n})" if nbuf == 2 else "")
    hyps = "h0, h1" if nbuf == 2 else "h0"
    barg, hA = f"b{arg}", f"h{arg}"
    prog = f"(({P}.prog {D} ({osrc})).getD [.panic])"
    blocks = f"(blocksOf {prog})"
    encx = f"(Spec.Enc.{enc}.apply {barg})"
    def prog_form(e, b):
        if e == "lo":
            return f"({b}.take {n // 2})"
        if e == "hi":
            return f"({b}.drop {n // 2})"
        return f"(Spec.Enc.{e}.apply {b})"
    pfx = prog_form(enc, barg)
    SIMP = f"simp only [Drivers.{camel(row['panel'])}.panel, driver_simp, Option.getD, {hyps}]"
    NORM = f"(by first | ({SIMP}; rfl) | rfl)"
    okc = "Or.inl rfl" if ct in (0x24, 0x10) else "Or.inr rfl"
    L = ["set_option maxHeartbeats 1600000 in", "set_option maxRecDepth 1000000 in"]
    B = []   # the per-case tactic block
    if fam == "ssd":
        cf = row["comps"][[h[0] for h in holes].index(kt)].split(",")
        xs, xe, ys, ye, stride, rows = map(int, cf[:6])
        if cf[6] != "true" or xs != 0 or ys != 0:
            return None, ("update_frame does not re-program the RAM window / counter itself: from a state with another window it is not ready "
                          f"(window x {xs}..{xe}, y {ys}..{ye} at the data block) — history independence holds only as far as no operation changes the window")
        wb = xe + 1
        L.append(f"theorem {name} (s : Ssd) (hw : Ssd.WfSize s) (ha : s.asleep = false) (he : s.entry = 3) (hx : s.xPix = {cf[7]})")
        L.append(f"    (hs : s.stride = {stride}) (hr : s.rows = {rows}) {dvars} {bufs} :")
        L.append(f"    {prog}.all (fun a => !a.isPanic) = true ∧")
        L.append(f"    ∀ (j : Nat) (hj : j < {encx}.length),")
        L.append(f"      (Ssd.planeOf {plane} ({blocks}.foldl Ssd.feed s))[(j / {wb}) * {stride} + j % {wb}]? = some {encx}[j] := by")
        L.append(f"  have haddr : Ssd.addr s = ⟨{cf[7]}, {stride}, {rows}, 3, s.xs, s.xe, s.ys, s.ye, s.cx, s.cy, false⟩ := by")
        L.append(f"    simp only [Ssd.addr, ha, he, hx, hs, hr]")
        B.append(f"    refine ⟨{NORM}, ?_⟩")
        B.append(f"    have hk : {blocks}[{kt}]? = some (.c {ct} (List.flatten [{pfx}])) := {NORM}")
        B.append(f"    have hpost : ({blocks}.drop ({kt} + 1)).all (fun b => !Ssd.touches (Ssd.planeOfCmd {ct}) b) = true := {NORM}")
        B.append(f"    have hlen : (List.flatten [{pfx}]).length = {lt} := by")
        B.append(f"      {len_simp(enc).replace('hA', hA)}")
        B.append(f"    have hA : ({blocks}.take {kt}).foldl Ssd.feedA (Ssd.addr s) = ⟨{cf[7]}, {stride}, {rows}, 3, {xs}, {xe}, {ys}, {ye}, {xs}, {ys}, false⟩ := by")
        B.append(f"      rw [haddr]; first | ({SIMP}; rfl) | rfl")
        ev = "(by rw [hA]; first | done | rfl)"
        B.append(f"    have main := Ssd.ssd_from_any_state _ s hw {kt} {ct} _ hk ({okc}) {lt} {wb} {stride} hlen {ev} {ev} {ev} {ev} {ev} hpost")
        B.append(f"    intro j hj")
        B.append(f"    have := main j (by rw [flatten_single]; exact hj)")
        B.append(f"    simpa [Ssd.planeOfCmd, flatten_single] using this)")
    else:
        cf = row["comps"][[h[0] for h in holes].index(kt)].split(",")
        if cf[2] != "true":
            return None, "not ready even from an awake controller outside partial mode"
        needp = cf[3] != "true"
        L.append(f"theorem {name} (u : Uc) (ha : u.asleep = false)" + (" (hp : u.partialOn = false)" if needp else "") + f" (h14 : u.has14 = {cf[4]})")
        L.append(f"    (hsz : (Uc.planeU {plane} u).size = {lt}) {dvars} {bufs} :")
        L.append(f"    {prog}.all (fun a => !a.isPanic) = true ∧")
        L.append(f"    (Uc.planeU {plane} ({blocks}.foldl Uc.feed u)).toList = {encx} := by")
        L.append(f"  have hflags : Uc.flags u = ⟨false, {'false' if needp else 'u.partialOn'}, {cf[4]}⟩ := by")
        L.append(f"    simp only [Uc.flags, ha, h14" + (", hp" if needp else "") + "]")
        L.append(f"  have hpl : Uc.planeOfCmd {ct} = {plane} := by decide")
        B.append(f"    refine ⟨{NORM}, ?_⟩")
        B.append(f"    have hk : {blocks}[{kt}]? = some (.c {ct} (List.flatten [{pfx}])) := {NORM}")
        B.append(f"    have hpost : ({blocks}.drop ({kt} + 1)).all (fun b => !Uc.touches (Uc.planeOfCmd {ct}) b) = true := {NORM}")
        B.append(f"    have hlen : (List.flatten [{pfx}]).length = {lt} := by")
        B.append(f"      {len_simp(enc).replace('hA', hA)}")
        B.append(f"    have main := Uc.uc_from_any_state _ u {kt} {ct} _ hk ({okc}) (by rw [hlen, hpl, hsz]) (by rw [hflags]; first | ({SIMP}; rfl) | rfl) hpost")
        if pfx != encx:
            B.append(f"    have he : {encx} = {pfx} := by simp [Spec.Enc.apply, {hA}]")
            B.append(f"    rw [he]")
        B.append(f"    rw [hpl] at main")
        B.append(f"    simpa [flatten_single] using main)")
    return name, "\n".join(L) + "\n" + split + "\n".join(B) + "\n"

# ---------------------------------------------------------------------------------------------
# clear_frame from any state (`--clear`, C07)

def parse_clear(feat):
    out = subprocess.run([MODEL, "e2eclear"] + ([feat] if feat != "v3" else []), capture_output=True, text=True, check=True).stdout
    rows = []
    for l in out.splitlines():
        if not l.startswith("K "):
            continue
        f = l.split(" ")
        d = dict(x.split("=", 1) for x in f[3:])
        rows.append(dict(panel=f[1], fam=f[2], op="clear", bg=int(d["bg"]), d=d["d"], plane=int(d["plane"]), k=int(d["k"]), cmd=int(d["cmd"], 16),
                         n=int(d["len"]), val=int(d["val"]), uniform=d["uniform"] == "true", nopanic=d["nopanic"] == "true", later=d["later"] == "true",
                         comp=d["comp"].split(","), primary=d["primary"] == "true", want=int(d["want"]), targets=[(int(d["plane"]), "id", 0)]))
    return rows

def theorem_clear(row, feat, t):
    fam = row["fam"]
    plane, kt, ct, lt, v = row["plane"], row["k"], row["cmd"], row["n"], row["val"]
    if not row["nopanic"]:
        return None, "an assertion of clear_frame fails"
    if not row["uniform"] or not row["later"]:
        return None, "the plane is not written by exactly one uniform data block"
    if lt > 20000:
        return None, f"fill of {lt} bytes: the literal is too large for the elaborator's budget (oracle on histories decides)"
    if row["primary"] and v != row["want"]:
        return None, (f"clear_frame fills the primary plane with 0x{v:02x}; a frame uniformly painted in background {row['bg']} leaves 0x{row['want']:02x} there "
                      "(the driver ignores the background colour or uses another convention: known-finding class)")
    fe = "{}" if feat == "v3" else "{ v2 := true }"
    P = f"(Drivers.{camel(row['panel'])}.panel {fe})"
    r, o, pf = row["d"].split(",")
    D = f"{{ bg := {row['bg']}, refresh := .{r}, isOn := {o}, partialFlag := {pf}, sleepMode := sm, oldData := od }}"
    dtag = f"_{r}_{'on' if o == 'true' else 'off'}_{'pf' if pf == 'true' else 'nopf'}"
    name = f"{row['panel']}_clear_bg{row['bg']}_from_any_state{dtag}_plane{plane}" + ("" if feat == "v3" else "_v2")
    prog = f"(({P}.prog {D} .clear).getD [.panic])"
    blocks = f"(blocksOf {prog})"
    data = f"(List.replicate {lt} ({v} : UInt8))"
    SIMP = f"simp only [Drivers.{camel(row['panel'])}.panel, driver_simp, Option.getD]"
    NORM = f"(by first | ({SIMP}; rfl) | rfl)"
    okc = "Or.inl rfl" if ct in (0x24, 0x10) else "Or.inr rfl"
    cf = row["comp"]
    L = ["set_option maxHeartbeats 1600000 in", "set_option maxRecDepth 1000000 in"]
    if fam == "ssd":
        xs, xe, ys, ye, stride, rows = map(int, cf[:6])
        if cf[6] != "true" or xs != 0 or ys != 0:
            return None, ("clear_frame does not re-program the RAM window / counter itself: from a state with another window the fill does not cover the plane "
                          f"(window x {xs}..{xe}, y {ys}..{ye} at the data block)")
        wb = xe + 1
        L.append(f"theorem {name} (s : Ssd) (hw : Ssd.WfSize s) (ha : s.asleep = false) (he : s.entry = 3) (hx : s.xPix = {cf[7]})")
        L.append(f"    (hs : s.stride = {stride}) (hr : s.rows = {rows}) (sm : UInt8) (od : List UInt8) :")
        L.append(f"    {prog}.all (fun a => !a.isPanic) = true ∧")
        L.append(f"    ∀ (j : Nat) (hj : j < {lt}),")
        L.append(f"      (Ssd.planeOf {plane} ({blocks}.foldl Ssd.feed s))[(j / {wb}) * {stride} + j % {wb}]? = some ({v} : UInt8) := by")
        L.append(f"  have haddr : Ssd.addr s = ⟨{cf[7]}, {stride}, {rows}, 3, s.xs, s.xe, s.ys, s.ye, s.cx, s.cy, false⟩ := by")
        L.append(f"    simp only [Ssd.addr, ha, he, hx, hs, hr]")
        L.append(f"  refine ⟨{NORM}, ?_⟩")
        L.append(f"  have hk : {blocks}[{kt}]? = some (.c {ct} (List.flatten [{data}])) := {NORM}")
        L.append(f"  have hpost : ({blocks}.drop ({kt} + 1)).all (fun b => !Ssd.touches (Ssd.planeOfCmd {ct}) b) = true := {NORM}")
        L.append(f"  have hlen : (List.flatten [{data}]).length = {lt} := by simp")
        L.append(f"  have hA : ({blocks}.take {kt}).foldl Ssd.feedA (Ssd.addr s) = ⟨{cf[7]}, {stride}, {rows}, 3, {xs}, {xe}, {ys}, {ye}, {xs}, {ys}, false⟩ := by")
        L.append(f"    rw [haddr]; first | ({SIMP}; rfl) | rfl")
        ev = "(by rw [hA]; first | done | rfl)"
        L.append(f"  have main := Ssd.ssd_from_any_state _ s hw {kt} {ct} _ hk ({okc}) {lt} {wb} {stride} hlen {ev} {ev} {ev} {ev} {ev} hpost")
        L.append(f"  intro j hj")
        L.append(f"  have := main j (by rw [hlen]; exact hj)")
        L.append(f"  simpa [Ssd.planeOfCmd, flatten_single, List.getElem_replicate] using this")
    else:
        if cf[2] != "true":
            return None, "not ready even from an awake controller outside partial mode"
        needp = cf[3] != "true"
        L.append(f"theorem {name} (u : Uc) (ha : u.asleep = false)" + (" (hp : u.partialOn = false)" if needp else "") + f" (h14 : u.has14 = {cf[4]})")
        L.append(f"    (hsz : (Uc.planeU {plane} u).size = {lt}) (sm : UInt8) (od : List UInt8) :")
        L.append(f"    {prog}.all (fun a => !a.isPanic) = true ∧")
        L.append(f"    (Uc.planeU {plane} ({blocks}.foldl Uc.feed u)).toList = {data} := by")
        L.append(f"  have hflags : Uc.flags u = ⟨false, {'false' if needp else 'u.partialOn'}, {cf[4]}⟩ := by")
        L.append(f"    simp only [Uc.flags, ha, h14" + (", hp" if needp else "") + "]")
        L.append(f"  have hpl : Uc.planeOfCmd {ct} = {plane} := by decide")
        L.append(f"  refine ⟨{NORM}, ?_⟩")
        L.append(f"  have hk : {blocks}[{kt}]? = some (.c {ct} (List.flatten [{data}])) := {NORM}")
        L.append(f"  have hpost : ({blocks}.drop ({kt} + 1)).all (fun b => !Uc.touches (Uc.planeOfCmd {ct}) b) = true := {NORM}")
        L.append(f"  have hlen : (List.flatten [{data}]).length = {lt} := by simp")
        L.append(f"  have main := Uc.uc_from_any_state _ u {kt} {ct} _ hk ({okc}) (by rw [hlen, hpl, hsz]) (by rw [hflags]; first | ({SIMP}; rfl) | rfl) hpost")
        L.append(f"  rw [hpl] at main")
        L.append(f"  simpa [flatten_single] using main")
    return name, "\n".join(L) + "\n"

CLEAR = "--clear" in sys.argv

ANY = "--any" in sys.argv

HIST = "--hist" in sys.argv
if HIST:
    OUT = os.path.join(LEAN, "EpdVerif", "Props", "E2EH")
NS = "E2EH" if HIST else "E2E"
if ANY:
    OUT = os.path.join(LEAN, "EpdVerif", "Props", "E2EA")
    NS = "E2EA"
if CLEAR:
    OUT = os.path.join(LEAN, "EpdVerif", "Props", "E2EC")
    NS = "E2EC"

def main():
    os.makedirs(OUT, exist_ok=True)
    dropped_path = os.path.join(OUT, "DROPPED.txt")
    dropped = {}
    if os.path.exists(dropped_path) and "--fresh" not in sys.argv:
        for l in open(dropped_path):
            if l.strip() and not l.startswith("#"):
                k, _, why = l.strip().partition("  ")
                dropped[k] = why
    files = {}
    zfile = {}
    index = []
    for feat in ("v3", "v2"):
        for row in (parse_clear(feat) if CLEAR else parse_any(feat) if ANY else parse(feat, HIST)):
            if feat == "v2" and row["panel"] != "epd2in13_v2":
                continue
            for t in row["targets"]:
                if CLEAR:
                    key = f"{row['panel']}_clear_bg{row['bg']}_from_any_state_{row['d'].replace(',', '_')}_plane{t[0]}" + ("" if feat == "v3" else "_v2")
                elif ANY:
                    key = f"{row['panel']}_{row['op']}_from_any_state_{row['d'].replace(',', '_')}_plane{t[0]}" + ("" if feat == "v3" else "_v2")
                else:
                    key = f"{row['panel']}_{row['op']}" + ("" if row["hist"] == "fresh" else f"_after_{row['hist']}") + f"_plane{t[0]}" + ("" if feat == "v3" else "_v2")
                if key in dropped:
                    continue
                ZS_USED.clear()
                name, txt = (theorem_clear if CLEAR else theorem_any if ANY else theorem)(row, feat, t)
                if name is None:
                    dropped[key] = txt
                    continue
                KEYOF[name] = key
                files.setdefault(row["panel"], []).append((name, txt))
                zfile.setdefault(row["panel"], set()).update(ZS_USED)
                index.append(name)
    mods = []
    CH = 5
    for panel, ths in sorted(files.items()):
        chunks = [ths[i:i + CH] for i in range(0, len(ths), CH)]
        for ci, chunk in enumerate(chunks):
            mod = camel(panel) + ("" if len(chunks) == 1 else f"_{ci + 1}")
            mods.append(mod)
            with open(os.path.join(OUT, mod + ".lean"), "w") as f:
                f.write(f"-- GENERATED by tools/gen_e2e.py — do not edit\nimport EpdVerif.E2E\nimport EpdVerif.Drivers.{camel(panel)}\nimport EpdVerif.Props.C01\nimport EpdVerif.Lemmas.SsdAddr\nimport EpdVerif.Lemmas.UcFlags\n")
                f.write("/-! end-to-end delivery theorems: every buffer of the panel's size, " + ("one unit of history before the update" if HIST else "fresh driver") + " -/\n")
                f.write(f"namespace EpdVerif.Props.{NS}.{mod}\nopen EpdVerif\n\n")
                f.write("/-! zero buffers as opaque constants: the elaborator never unfolds them (their length is a\n    lemma), the kernel does when it evaluates the companion run -/\n")
                for k in sorted(zfile.get(panel, [])):
                    f.write(f"def z{k} : Bytes := List.replicate {k} 0\ntheorem z{k}_len : z{k}.length = {k} := (List.length_replicate : (List.replicate {k} (0 : UInt8)).length = {k})\nattribute [irreducible] z{k}\n")
                f.write("\n")
                for name, txt in chunk:
                    f.write(txt + "\n")
                f.write(f"end EpdVerif.Props.{NS}.{mod}\n")
    for fn in os.listdir(OUT):
        if fn.endswith(".lean") and fn[:-5] not in mods:
            os.remove(os.path.join(OUT, fn))
    with open(os.path.join(LEAN, "EpdVerif", "Props", f"{NS}All.lean"), "w") as f:
        f.write("-- GENERATED by tools/gen_e2e.py — do not edit\n")
        for m in mods:
            f.write(f"import EpdVerif.Props.{NS}.{m}\n")
    with open(dropped_path, "w") as f:
        f.write("# end-to-end instances not stated (generator) or rejected by Lean (build), with the reason\n")
        for k, why in sorted(dropped.items()):
            f.write(f"{k}  {why}\n")
    print(f"instances written: {len(index)}; dropped: {len(dropped)}")
    return mods, dropped, dropped_path

def build_and_drop():
    for it in range(12):
        if it > 0 and "--fresh" in sys.argv:
            sys.argv.remove("--fresh")
        mods, dropped, dropped_path = main()
        r = subprocess.run(["lake", "build"] + [f"EpdVerif.Props.{NS}.{m}" for m in mods], cwd=LEAN, capture_output=True, text=True)
        out = r.stdout + r.stderr
        bad = {}
        for m in re.finditer(r"error: (EpdVerif/Props/E2E[HAC]?/(\w+)\.lean):(\d+):\d+: ([^\n]*)", out):
            path, mod, line, msg = m.group(1), m.group(2), int(m.group(3)), m.group(4)
            src = open(os.path.join(LEAN, path)).read().splitlines()
            # the theorem the error line belongs to
            name = None
            for i in range(min(line, len(src)) - 1, -1, -1):
                mm = re.match(r"theorem (\w+)", src[i])
                if mm:
                    name = mm.group(1)
                    break
            if name and KEYOF.get(name, name) not in bad:
                bad[KEYOF.get(name, name)] = f"rejected by Lean at its line {line}: {msg[:160]}"
        if not bad:
            print("build ok" if r.returncode == 0 else out[-3000:])
            return r.returncode
        print(f"iteration {it}: dropping {len(bad)}: {sorted(bad)}")
        with open(dropped_path, "a") as f:
            for k, why in bad.items():
                f.write(f"{k}  {why}\n")
    return 1

if __name__ == "__main__":
    if "--nobuild" in sys.argv:
        main()
    else:
        sys.exit(build_and_drop())
