#!/usr/bin/env python3
"""generates lean/EpdVerif/Props/E2E/*.lean: per panel and full-frame entry point, the end-to-end
theorem "for EVERY buffer of the panel's size, after `new` and the entry point the controller
plane holds the (encoded) buffer", proved from the generic theorems `Ssd.ssd_e2e` / `Uc.uc_e2e`.

Reads `epdmodel e2e` (which blocks depend on the buffer; addressing state of the companion run),
writes one Lean file per panel, builds them, and drops the instances Lean rejects (listed in
Props/E2E/DROPPED.txt with the reason).  Run by hand when driver models change; the output is
committed and re-checked by Lean on every build."""
import os, re, subprocess, sys, json
ROOT = os.path.dirname(os.path.dirname(os.path.abspath(__file__)))
LEAN = os.path.join(ROOT, "lean")
OUT = os.path.join(LEAN, "EpdVerif", "Props", "E2E")
MODEL = os.path.join(LEAN, ".lake", "build", "bin", "epdmodel")

def camel(name):
    return name[0].upper() + name[1:]

OPS = {
    "upd": ("[.new, .upd b0]", 1), "updisp": ("[.new, .updisp b0]", 1), "old": ("[.new, .old b0]", 1),
    "newf": ("[.new, .newf b0]", 1), "updispnew": ("[.new, .updispnew b0]", 1), "color": ("[.new, .color b0 b1]", 2),
    "achro": ("[.new, .achro b0]", 1), "chro": ("[.new, .chro b0]", 1), "base": ("[.new, .base b0]", 1),
}

def enc_len(enc, n):
    return {"id": n, "inv": n, "bpp2": 2 * n, "bpp4": 4 * n, "lo": n // 2, "hi": n - n // 2}[enc]

def len_simp(enc):
    # rewriting (Enc.X.apply b).length to a numeral given h : b.length = N
    base = "flatten_single, Spec.Enc.apply"
    if enc == "id":
        return f"simp only [{base}, hA]"
    if enc == "inv":
        return f"simp only [{base}, List.length_map, hA]"
    if enc in ("lo", "hi"):
        return f"simp only [{base}, List.length_take, List.length_drop, hA]; first | done | decide"
    if enc == "bpp2":
        return "rw [flatten_single, Props.C01.enc_length]; simp only [hA]"
    if enc == "bpp4":
        return "rw [flatten_single, Props.C01.enc_length]; simp only [hA]"
    raise KeyError(enc)

def parse(feat):
    out = subprocess.run([MODEL, "e2e"] + ([feat] if feat != "v3" else []), capture_output=True, text=True, check=True).stdout
    rows = []
    for l in out.splitlines():
        if not l.startswith("E "):
            continue
        f = l.split(" ")
        d = dict(x.split("=", 1) for x in f[4:])
        holes = [tuple(h.split(":")) for h in d["holes"].split(",") if h]
        comps = d["comp"].split("|") if d["comp"] else []
        tg = [t.split(",") for t in d["targets"].split(";") if t]
        rows.append(dict(panel=f[1], fam=f[2], op=f[3], n=int(d["len"]), same=d["sameLen"] == "true", nopanic=d["nopanic"] == "true",
                         holes=[(int(i), int(c, 16), int(n), src) for (i, c, n, src) in holes], comps=comps,
                         targets=[(int(p), e.split(".")[-1], int(a)) for (p, e, a) in tg]))
    return rows

def plane_of(fam, c):
    if fam == "ssd":
        return {0x24: 0, 0x26: 1}.get(c)
    return {0x10: 0, 0x13: 1}.get(c)

def theorem(row, feat, t):
    plane, enc, arg = t
    fam = row["fam"]
    ns = "Ssd" if fam == "ssd" else "Uc"
    ops, nbuf = OPS[row["op"]]
    n = row["n"]
    holes = row["holes"]
    cands = [(i, c, ln) for (i, c, ln, _) in holes if plane_of(fam, c) == plane]
    if any(src == "?" for (_, _, _, src) in holes):
        return None, "a buffer-dependent block is not a recognised encoding of an argument"
    if not cands or not row["same"] or not row["nopanic"]:
        return None, "no data block for the target plane / structure depends on the buffer"
    kt, ct, lt = cands[-1]
    if lt != enc_len(enc, n):
        return None, f"data block length {lt} is not the encoded buffer's {enc_len(enc, n)}"
    name = f"{row['panel']}_{row['op']}_plane{plane}" + ("" if feat == "v3" else f"_{feat}")
    fe = "{}" if feat == "v3" else "{ v2 := true }"
    P = f"(Drivers.{camel(row['panel'])}.panel {fe})"
    bufs = "(b0 : Bytes) (h0 : b0.length = %d)" % n + (" (b1 : Bytes) (h1 : b1.length = %d)" % n if nbuf == 2 else "")
    ops0 = ops.replace("b0", f"(List.replicate {n} 0)").replace("b1", f"(List.replicate {n} 0)")
    barg = f"b{arg}"
    hA = f"h{arg}"
    encx = f"(Spec.Enc.{enc}.apply {barg})"
    def prog_form(e, b):
        if e == "lo":
            return f"({b}.take {n // 2})"
        if e == "hi":
            return f"({b}.drop {n // 2})"
        return f"(Spec.Enc.{e}.apply {b})"
    pfx = prog_form(enc, barg)
    # ShapesEq through the holes
    hyps = "h0, h1" if nbuf == 2 else "h0"
    NORM = (f"(by first | (simp only [Panel.blocks, Panel.progSeq, Panel.noPanic, Drivers.{camel(row['panel'])}.panel, driver_simp, "
            f"Option.getD, List.length_replicate, {hyps}]; rfl) | rfl)")
    sh = []
    prev = -1
    for (i, c, ln, src) in holes:
        rel = i - prev - 1
        ok = "Or.inl rfl" if c in (0x24, 0x10) else "Or.inr rfl"
        sa, se = src.split("/")
        dx = f"(List.flatten [{prog_form(se, 'b' + sa)}])"
        dy = f"(List.flatten [{prog_form(se, f'(List.replicate {n} 0)')}])"
        if fam == "ssd":
            lp = len_simp(se).replace("hA", f"h{sa}")
            sh.append(f"    refine Ssd.shapesEq_hole _ _ {rel} {c} ({ok}) {NORM} ⟨{dx}, {dy}, {NORM}, {NORM}, ?_⟩ ?_")
            sh.append(f"    · have e1 : {dx}.length = {ln} := by")
            sh.append(f"        {lp}")
            sh.append(f"      rw [e1]; decide +kernel")
        else:
            sh.append(f"    refine Uc.shapesEq_hole _ _ {rel} {c} ({ok}) {NORM} ⟨{dx}, {dy}, {NORM}, {NORM}⟩ ?_")
        prev = i
    sh.append(f"    exact {ns}.shapesEq_of_eq {NORM}")
    okc = "Or.inl rfl" if ct in (0x24, 0x10) else "Or.inr rfl"
    L = []
    L.append("set_option maxRecDepth 1000000 in")
    if fam == "ssd":
        xs, xe, ys, ye, stride, rows = map(int, row["comps"][[h[0] for h in holes].index(kt)].split(","))
        if xs != 0 or ys != 0 or xe < xs or ye < ys:
            return None, f"window at the data block is not anchored at the RAM origin (xs={xs}, ys={ys}, xe={xe}, ye={ye})"
        wb = xe + 1
        L.append(f"theorem {name} {bufs} :")
        L.append(f"    {P}.noPanic {ops} = true ∧")
        L.append(f"    ∀ (j : Nat) (hj : j < {encx}.length),")
        L.append(f"      (Ctrl.plane (Ctrl.run {P}.ctrl ({P}.blocks {ops})) {plane})[(j / {wb}) * {stride} + j % {wb}]? = some {encx}[j] := by")
        L.append(f"  refine ⟨{NORM}, ?_⟩")
        L.append(f"  have hs : Ssd.ShapesEq ({P}.blocks {ops}) ({P}.blocks {ops0}) := by")
        L += sh
        L.append(f"  have hk : ({P}.blocks {ops})[{kt}]? = some (.c {ct} (List.flatten [{pfx}])) := {NORM}")
        L.append(f"  have hlen : (List.flatten [{pfx}]).length = {lt} := by")
        L.append(f"    {len_simp(enc).replace('hA', hA)}")
        comp = f"((({P}.blocks {ops0}).take {kt}).foldl Ssd.feed (({P}.ctrl.ssd!).withPlanes #[] #[]))"
        L.append(f"  have main := Ssd.ssd_e2e_skip _ _ hs ({P}.ctrl.ssd!) (({P}.ctrl.ssd!).withPlanes #[] #[]) (Ssd.withPlanes_ctlEq ..) (Ssd.por_wf ..) {kt} {ct} _ hk")
        L.append(f"    ({okc}) {lt} {wb} {stride} hlen (by decide +kernel) (by decide +kernel)")
        L.append(f"  intro j hj")
        L.append(f"  have := main j (by rw [flatten_single]; exact hj)")
        L.append(f"  rw [show {P}.ctrl = .ssd ({P}.ctrl.ssd!) from rfl, Ctrl.run_ssd]")
        L.append(f"  simpa [Ctrl.plane, Ssd.planeOf, Ssd.planeOfCmd, flatten_single] using this")
    else:
        L.append(f"theorem {name} {bufs} :")
        L.append(f"    {P}.noPanic {ops} = true ∧")
        L.append(f"    (Ctrl.plane (Ctrl.run {P}.ctrl ({P}.blocks {ops})) {plane}).toList = {encx} := by")
        L.append(f"  refine ⟨{NORM}, ?_⟩")
        L.append(f"  have hs : Uc.ShapesEq ({P}.blocks {ops}) ({P}.blocks {ops0}) := by")
        L += sh
        L.append(f"  have hk : ({P}.blocks {ops})[{kt}]? = some (.c {ct} (List.flatten [{pfx}])) := {NORM}")
        L.append(f"  have hlen : (List.flatten [{pfx}]).length = {lt} := by")
        L.append(f"    {len_simp(enc).replace('hA', hA)}")
        L.append(f"  have hsz : (Uc.planeU (Uc.planeOfCmd {ct}) ({P}.ctrl.uc!)).size = {lt} := by decide +kernel")
        L.append(f"  have main := Uc.uc_e2e _ _ hs ({P}.ctrl.uc!) (({P}.ctrl.uc!).withData #[] #[] []) (Uc.withData_ctlEq ..) {kt} {ct} _ hk")
        L.append(f"    ({okc}) (by rw [hlen, hsz]) (by decide +kernel) (by decide +kernel)")
        L.append(f"  rw [show {P}.ctrl = .uc ({P}.ctrl.uc!) from rfl, Ctrl.run_uc]")
        if pfx != encx:
            L.append(f"  have he : {encx} = {pfx} := by simp [Spec.Enc.apply, {hA}]")
            L.append(f"  rw [he]")
        L.append(f"  simpa [Ctrl.plane, Uc.planeU, Uc.planeOfCmd, flatten_single] using main")
    return name, "\n".join(L) + "\n"

def main():
    os.makedirs(OUT, exist_ok=True)
    dropped_path = os.path.join(OUT, "DROPPED.txt")
    dropped = {}
    if os.path.exists(dropped_path) and "--fresh" not in sys.argv:
        for l in open(dropped_path):
            if l.strip() and not l.startswith("#"):
                k, _, why = l.strip().partition("  ")
                dropped[k] = why
    files = {}
    index = []
    for feat in ("v3", "v2"):
        for row in parse(feat):
            if feat == "v2" and row["panel"] != "epd2in13_v2":
                continue
            if row["op"] not in OPS:
                continue
            for t in row["targets"]:
                key = f"{row['panel']}_{row['op']}_plane{t[0]}" + ("" if feat == "v3" else "_v2")
                if key in dropped:
                    continue
                name, txt = theorem(row, feat, t)
                if name is None:
                    dropped[key] = txt
                    continue
                files.setdefault(row["panel"], []).append((name, txt))
                index.append(name)
    mods = []
    for panel, ths in sorted(files.items()):
        mod = camel(panel)
        mods.append(mod)
        with open(os.path.join(OUT, mod + ".lean"), "w") as f:
            f.write("-- GENERATED by tools/gen_e2e.py — do not edit\nimport EpdVerif.E2E\nimport EpdVerif.Props.C01\n")
            f.write("/-! end-to-end delivery theorems: every buffer of the panel's size, fresh driver -/\n")
            f.write("namespace EpdVerif.Props.E2E\nopen EpdVerif\n\n")
            for name, txt in ths:
                f.write(txt + "\n")
            f.write("end EpdVerif.Props.E2E\n")
    for fn in os.listdir(OUT):
        if fn.endswith(".lean") and fn[:-5] not in mods:
            os.remove(os.path.join(OUT, fn))
    with open(os.path.join(LEAN, "EpdVerif", "Props", "E2EAll.lean"), "w") as f:
        f.write("-- GENERATED by tools/gen_e2e.py — do not edit\n")
        for m in mods:
            f.write(f"import EpdVerif.Props.E2E.{m}\n")
    with open(dropped_path, "w") as f:
        f.write("# end-to-end instances not stated (generator) or rejected by Lean (build), with the reason\n")
        for k, why in sorted(dropped.items()):
            f.write(f"{k}  {why}\n")
    print(f"instances written: {len(index)}; dropped: {len(dropped)}")
    return mods, dropped, dropped_path

def build_and_drop():
    for it in range(12):
        if it > 0 and "--fresh" in sys.argv:
            sys.argv.remove("--fresh")
        mods, dropped, dropped_path = main()
        r = subprocess.run(["lake", "build"] + [f"EpdVerif.Props.E2E.{m}" for m in mods], cwd=LEAN, capture_output=True, text=True)
        out = r.stdout + r.stderr
        bad = {}
        for m in re.finditer(r"error: (EpdVerif/Props/E2E/(\w+)\.lean):(\d+):\d+: ([^\n]*)", out):
            path, mod, line, msg = m.group(1), m.group(2), int(m.group(3)), m.group(4)
            src = open(os.path.join(LEAN, path)).read().splitlines()
            # the theorem the error line belongs to
            name = None
            for i in range(min(line, len(src)) - 1, -1, -1):
                mm = re.match(r"theorem (\w+)", src[i])
                if mm:
                    name = mm.group(1)
                    break
            if name and name not in bad:
                bad[name] = f"rejected by Lean at its line {line}: {msg[:160]}"
        if not bad:
            print("build ok" if r.returncode == 0 else out[-3000:])
            return r.returncode
        print(f"iteration {it}: dropping {len(bad)}: {sorted(bad)}")
        with open(dropped_path, "a") as f:
            for k, why in bad.items():
                f.write(f"{k}  {why}\n")
    return 1

if __name__ == "__main__":
    if "--nobuild" in sys.argv:
        main()
    else:
        sys.exit(build_and_drop())
