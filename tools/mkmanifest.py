#!/usr/bin/env python3
"""writes /verif/MANIFEST.json from the table below (kept in one place so it stays valid)"""
import json, os
ROOT = os.path.dirname(os.path.dirname(os.path.abspath(__file__)))
props = [json.loads(l) for l in open(os.path.join(ROOT, "properties.jsonl"))]

LEVEL_NOTE = ("Trusted: Lean 4.33.0 kernel (axioms propext, Classical.choice, Quot.sound only; audited per theorem on every run; no sorry/native_decide), "
              "tools/gen_consts.py (constants regenerated from /repo/src each run), the Rust harness (mock HAL) and the differential comparison; ")

CLAIMS = {
    "C03": ("Lean theorems about a model of graphics.rs::set_pixel for every width/height, rotation, colour type, bitmask and every point of the integer plane (no panic, nothing outside the slice, exactly the pixel's byte rewritten as old&mask|bits, bit-level corollary, size swap, rotation bijection); model tied to the code by hashing the effect of every set_pixel call of exhaustive point grids on real Display/VarDisplay buffers against the model's prediction",
            "model of graphics.rs hand-written; width,height < 2^31; dev profile. Two genuine defects found and fixed (faca873, 9b3cce6).",
            "Lean 4 proof (Array lemmas, omega, complete byte-domain decide) + differential correspondence"),
    "C13": ("Lean theorems: buffer_len formula for all w,h; the GENERATED table of the 27 Display aliases decided completely (dimensions = driver's, length = planes*rows*padded row bytes, equal halves); VarDisplay::new accepts iff the slice holds every plane, exposes exactly that, every pixel drawable (from C03) for every geometry; tied to the code by the alias table printed from the compiled crate, VarDisplay::new over a 65x65 grid and drawing every pixel of accepted buffers",
            "alias parameters are parsed from the `pub type Display… =` declarations by gen_consts.py; one genuine defect fixed (9b3cce6).",
            "Lean 4 proof (decide over the generated table, omega) + differential correspondence"),
    "C14": ("Lean theorems over the complete finite domains (256 bytes, all colours, 8/2 pixel positions, both bwrbit, raw values) and for every RGB value (palette exact match + minimal squared distance for all naturals; brightness-nearest for every value of Rgb888/565/555); two clauses false of the tree are proved false with witnesses and listed as known findings (RawU1 round trip, RawU4 panic); tied to the code by printing every domain from the real functions (all Rgb565/555 values, Rgb888 sampled quick / all 2^24 thorough)",
            "embedded-graphics RGB/Raw types modelled by their documented contracts; one genuine defect fixed (b180c08).",
            "Lean 4 proof (decide +kernel over whole domains, induction on min_by_key fold, omega) + differential correspondence"),
    "C16": ("Lean theorems about a model of src/rect.rs for every u32 rectangle (commutative, idempotent, exact pixel set, empty iff disjoint, translation), tied to the code by a differential run of the real Rect functions (boundary/overflow/random u32 values, exhaustive small grids) plus a pixel-set oracle evaluated on the implementation's results",
            "dev-profile overflow semantics (u32 + / - panic).",
            "Lean 4 proof (omega) + differential correspondence"),
}
PENDING = {}

man = {
    "version": 1,
    "setup_cmd": "cd /verif && ./setup.sh",
    "hooks": {"guard": "epd_waveshare_verif", "enable": "none needed: every observation goes through the public API and a mock HAL (no hook commits in /repo)",
              "baseline_off_cmd": "cd /repo && cargo test --workspace --no-fail-fast --offline", "source_commits": [], "add_only": True},
    "engines": [{"name": "lean-model+harness", "path": "/verif/lean, /verif/harness, /verif/tools", "serves_properties": sorted(CLAIMS),
                 "kind_free_text": "Lean 4 model with theorems; constants regenerated from source on every run; Rust differential harness (mock HAL) for the correspondence check; executable oracles evaluated on the implementation's traces"}],
    "checks": [], "not_applicable": [],
    "notes": "See DESIGN.md. ./vcheck Cxx [--tier quick|thorough]; ./vcheck replay <path>. Genuine defects repaired in /repo as `fix:` commits are listed in known_findings.json.",
}
for p in props:
    pid = p["id"]
    if pid in CLAIMS:
        text, note, tech = CLAIMS[pid]
        man["checks"].append({
            "property_id": pid, "quick_cmd": f"./vcheck {pid} --tier quick", "thorough_cmd": f"./vcheck {pid} --tier thorough",
            "evidence_file": f"/verif/evidence/{pid}.json", "replay_cmd_template": "./vcheck replay {path}", "engine": "lean-model+harness",
            "level_claimed": {"category": "proof", "text": text, "design_ref": f"DESIGN.md §6 {pid}"},
            "level_note": LEVEL_NOTE + note, "technique": tech})
    else:
        man["not_applicable"].append({"property_id": pid, "reason": PENDING.get(pid, "check under construction in this session (model being written; not yet registered)")})
json.dump(man, open(os.path.join(ROOT, "MANIFEST.json"), "w"), indent=1)
print("claimed:", sorted(CLAIMS))
