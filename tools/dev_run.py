#!/usr/bin/env python3
"""development aid: run a property's scenarios and summarise oracle failures by (site, reason)"""
import sys, os, collections, re, shutil
sys.path.insert(0, os.path.dirname(os.path.abspath(__file__)))
import check, scenarios
prop, tier = sys.argv[1], (sys.argv[2] if len(sys.argv) > 2 else "quick")
spec = scenarios.PROPS[prop]
wd = os.path.join(check.WORK, "dev-%d" % os.getpid()); os.makedirs(wd, exist_ok=True)
import subprocess
class Ctx:
    def harness(self, lines, feat):
        sf = os.path.join(wd, "pre.txt"); open(sf, "w").write("\n".join(lines) + "\n")
        return subprocess.run([check.harness_bin(feat)], stdin=open(sf), stdout=subprocess.PIPE, text=True).stdout
gen = spec["gen"](tier, 1, Ctx()) if spec.get("ctx") else spec["gen"](tier, 1)
outputs = []
fails = collections.Counter(); ex = {}; drift = []; vm = collections.Counter(); n = 0
for feat in spec.get("feats", ["v3"]):
    lines = gen.get(feat, [])
    n += len(lines)
    for o in check.run_shards(lines, feat, spec["props"], spec.get("view", "raw"), wd):
        outputs.append((feat, o))
        if o.startswith("V ") and " FAIL " in o:
            site = re.search(r"site=(\S+)", o).group(1); reason = re.search(r"reason=(\S+)", o).group(1)
            fails[(site, reason)] += 1; ex.setdefault((site, reason), o)
        elif o.startswith("VM "):
            site = re.search(r"site=(\S+)", o).group(1); reason = re.search(r"reason=(\S+)", o).group(1)
            vm[(site, reason)] += 1
        elif o.startswith("C ") and " same" not in o:
            drift.append(o)
        elif o.startswith("X "):
            print(o)
if spec.get("post"):
    ef, nobs = getattr(scenarios, spec["post"])(outputs, {})  # (panel names from ids)
    for (f_, sid, d) in ef:
        site = re.search(r"site=(\S+)", d).group(1); reason = re.search(r"reason=(\S+)", d).group(1)
        fails[(site, reason)] += 1; ex.setdefault((site, reason), sid + " " + d)
    print("post observations", nobs)
shutil.rmtree(wd, ignore_errors=True)
print("scenarios", n, "drift", len(drift))
for d in drift[:8]: print("  ", d[:220])
for k, v in sorted(fails.items()):
    print(f"{v:5d} {k[0]:32s} {k[1]:38s} model:{vm.get(k,0):4d} | {ex[k][:170]}")
only_model = [k for k in vm if k not in fails]
for k in only_model: print("MODEL-ONLY", k, vm[k])
