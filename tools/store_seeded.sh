#!/bin/bash
# usage: tools/store_seeded.sh <worktree> <variant-dir-under-out> <name>
# copies a sub-agent's change into seeded/<name>/ and re-confirms it in its scratch worktree:
# demonstration passes without / fails with the change, the crate's own lib tests pass with it.
set -u
WT=$1; V=$2; N=$3
mkdir -p /verif/seeded/$N
cp $WT/out/$V/{patch.diff,demo_mutation.rs,meta.json} /verif/seeded/$N/
cd $WT && git checkout -q -- src && mkdir -p tests && cp /verif/seeded/$N/demo_mutation.rs tests/demo_mutation.rs
echo "== $N without"; CARGO_NET_OFFLINE=true cargo test --offline --test demo_mutation 2>&1 | grep "test result"
git apply /verif/seeded/$N/patch.diff || { echo "PATCH DOES NOT APPLY"; exit 3; }
echo "== with"; CARGO_NET_OFFLINE=true cargo test --offline --test demo_mutation 2>&1 | grep "test result"
echo "== lib with"; CARGO_NET_OFFLINE=true cargo test --offline --lib 2>&1 | grep "test result"
git checkout -q -- src; rm -rf tests
