#!/usr/bin/env python3
"""vcheck driver: decides one property (see DESIGN.md §5.1).

  tools/check.py <Cxx> [--tier quick|thorough]
  tools/check.py replay <path>

exit 0: property held on everything explored (KNOWN-FINDING lines may be printed)
exit 1: `VIOLATION property=<id> replay=<path>` printed
exit 2: infrastructure failure (crate does not build, Lean toolchain missing, …)
"""
import fcntl, fnmatch, hashlib, json, os, re, shutil, subprocess, sys, time
from concurrent.futures import ThreadPoolExecutor

ROOT = os.path.dirname(os.path.dirname(os.path.abspath(__file__)))
LEAN = os.path.join(ROOT, "lean")
HARNESS = os.path.join(ROOT, "harness")
WORK = os.path.join(ROOT, "work")
EVID = os.path.join(ROOT, "evidence")
REPLAYS = os.path.join(ROOT, "replays")
REPO = "/repo"
ALLOWED_AXIOMS = {"propext", "Classical.choice", "Quot.sound"}
NCPU = os.cpu_count() or 4

sys.path.insert(0, os.path.join(ROOT, "tools"))
import scenarios  # noqa: E402


class Infra(Exception):
    pass


def sh(cmd, cwd=None, env=None, timeout=None):
    e = dict(os.environ)
    e["CARGO_NET_OFFLINE"] = "true"
    if env:
        e.update(env)
    p = subprocess.run(cmd, cwd=cwd, env=e, stdout=subprocess.PIPE, stderr=subprocess.STDOUT, text=True, timeout=timeout)
    return p.returncode, p.stdout


class Lock:
    def __enter__(self):
        os.makedirs(ROOT, exist_ok=True)
        self.f = open(os.path.join(ROOT, ".build.lock"), "w")
        fcntl.flock(self.f, fcntl.LOCK_EX)
        return self

    def __exit__(self, *a):
        fcntl.flock(self.f, fcntl.LOCK_UN)
        self.f.close()


def build(prop, feats):
    """regenerate constants, build the property's theorems (+audit) and the executables.
    returns dict(theorems_ok, audit lines, lean_log, gen summary)"""
    info = {}
    with Lock():
        rc, out = sh([sys.executable, os.path.join(ROOT, "tools", "gen_consts.py")])
        info["gen"] = out.strip().splitlines()[-1] if out.strip() else ""
        info["gen_ok"] = rc == 0
        if rc != 0:
            info["gen_error"] = out.strip()
        # model executable
        rc, out = sh(["lake", "build", "epdmodel"], cwd=LEAN, timeout=3000)
        info["model_ok"] = rc == 0
        info["model_log"] = out[-4000:]
        # theorems + audit
        rc, out = sh(["lake", "build", f"EpdVerif.Audit.{prop}"], cwd=LEAN, timeout=3000)
        info["theorems_ok"] = rc == 0
        info["lean_log"] = out
        # harness against the current working tree
        for feat in feats:
            tdir = os.path.join(HARNESS, "target" if feat == "v3" else f"target_{feat}")
            cmd = ["cargo", "build", "--offline", "--target-dir", tdir]
            if feat != "v3":
                cmd += ["--no-default-features", "--features", feat]
            shutil.copyfile(os.path.join(REPO, "Cargo.lock"), os.path.join(HARNESS, "Cargo.lock"))
            rc, out = sh(cmd, cwd=HARNESS, timeout=3000)
            if rc != 0:
                raise Infra("harness/crate build failed (feature %s):\n%s" % (feat, out[-3000:]))
    return info


def harness_bin(feat):
    return os.path.join(HARNESS, "target" if feat == "v3" else f"target_{feat}", "debug", "epdharness")


def parse_audit(log):
    thms = []
    for m in re.finditer(r"AXIOMS (\S+) :\s*\[(.*?)\]", log, re.S):
        axs = [a.strip() for a in m.group(2).replace("\n", " ").split(",") if a.strip()]
        thms.append((m.group(1), axs))
    count = sum(int(m.group(1)) for m in re.finditer(r"AUDIT \S+ theorems=(\d+)", log))
    return thms, count


def forbidden_scan():
    """no sorry/admit/axiom/native_decide/... anywhere in the Lean sources (comments excluded)"""
    bad = []
    pat = re.compile(r"\b(sorry|admit|native_decide|bv_decide|implemented_by|unsafe)\b|^\s*axiom\s|maxHeartbeats\s+0\b")
    for dp, _, fns in os.walk(os.path.join(LEAN, "EpdVerif")):
        for fn in fns:
            if not fn.endswith(".lean"):
                continue
            path = os.path.join(dp, fn)
            text = open(path).read()
            text = re.sub(r"/-.*?-/", lambda m: "\n" * m.group(0).count("\n"), text, flags=re.S)
            for i, line in enumerate(text.splitlines(), 1):
                line = line.split("--")[0]
                if pat.search(line):
                    bad.append(f"{os.path.relpath(path, ROOT)}:{i}: {line.strip()[:100]}")
    return bad


def run_shards(lines, feat, props, view, workdir):
    """run harness + model on scenario lines (sharded); returns list of model output lines"""
    if not lines:
        return []
    n = max(1, min(NCPU, len(lines) // 4 or 1))
    shards = [[] for _ in range(n)]
    # heavy scenarios are spread round-robin
    for i, l in enumerate(lines):
        shards[i % n].append(l)
    hb = harness_bin(feat)
    mb = os.path.join(LEAN, ".lake", "build", "bin", "epdmodel")

    def one(i):
        sf = os.path.join(workdir, f"s_{feat}_{i}.txt")
        tf = os.path.join(workdir, f"t_{feat}_{i}.txt")
        with open(sf, "w") as f:
            f.write("\n".join(shards[i]) + "\n")
        with open(sf) as fin, open(tf, "w") as fout:
            p = subprocess.run([hb], stdin=fin, stdout=fout, stderr=subprocess.PIPE, text=True)
        if p.returncode != 0:
            raise Infra("harness failed: " + p.stderr[-2000:])
        cmd = [mb, "check", sf, tf, "--props", ",".join(props), "--view", view]
        if feat != "v3":
            cmd.append(feat)
        p = subprocess.run(cmd, stdout=subprocess.PIPE, stderr=subprocess.PIPE, text=True)
        if p.returncode != 0:
            raise Infra("epdmodel failed: " + p.stderr[-2000:])
        os.remove(tf)
        return p.stdout.splitlines()

    out = []
    with ThreadPoolExecutor(max_workers=n) as ex:
        for res in ex.map(one, range(n)):
            out += res
    return out


def load_known():
    p = os.path.join(ROOT, "known_findings.json")
    if not os.path.exists(p):
        return []
    return json.load(open(p))["findings"]


def write_replay(prop, kind, payload):
    os.makedirs(REPLAYS, exist_ok=True)
    h = hashlib.sha256(json.dumps(payload, sort_keys=True).encode()).hexdigest()[:12]
    path = os.path.join(REPLAYS, f"{prop}-{kind}-{h}.json")
    with open(path, "w") as f:
        json.dump(payload, f, indent=1)
    return path


def check(prop, tier, seed):
    t0 = time.time()
    spec = scenarios.PROPS[prop]
    workdir = os.path.join(WORK, f"{prop}-{os.getpid()}")
    os.makedirs(workdir, exist_ok=True)
    os.makedirs(EVID, exist_ok=True)
    try:
        feats = spec.get("feats", ["v3"])
        info = build(prop, feats)
        if not info["model_ok"]:
            # the model itself no longer compiles against the regenerated constants
            rp = write_replay(prop, "model-build", {"property": prop, "what": "the Lean model does not build against the constants regenerated from /repo", "log": info["model_log"], "gen": info.get("gen_error", "")})
            print(f"VIOLATION property={prop} replay={rp} no-failing-input-found")
            write_evidence(prop, tier, seed, t0, spec, info, [], 0, 0, [], [], 1, [], {})
            return 1
        thms, count = parse_audit(info["lean_log"])
        bad_ax = [(n, [a for a in ax if a not in ALLOWED_AXIOMS]) for n, ax in thms]
        bad_ax = [(n, a) for n, a in bad_ax if a]
        forb = forbidden_scan()
        proof_ok = info["theorems_ok"] and info["gen_ok"] and not bad_ax and not forb and count > 0
        # scenarios
        class Ctx:
            def harness(self, lines, feat):
                sf = os.path.join(workdir, "pre.txt")
                with open(sf, "w") as f:
                    f.write("\n".join(lines) + "\n")
                with open(sf) as fin:
                    p = subprocess.run([harness_bin(feat)], stdin=fin, stdout=subprocess.PIPE, stderr=subprocess.PIPE, text=True)
                if p.returncode != 0:
                    raise Infra("harness failed in pre-pass: " + p.stderr[-2000:])
                return p.stdout
        gen = spec["gen"](tier, seed, Ctx()) if spec.get("ctx") else spec["gen"](tier, seed)
        known = [k for k in load_known() if k["property"] == prop and k.get("status") == "open"]
        all_lines = {}
        outputs = []
        nlines = 0
        for feat in feats:
            lines = list(gen.get(feat, []))
            # witnesses of known findings run in every invocation
            for k in known:
                if k.get("feat", "v3") == feat and k.get("witness"):
                    lines.append(k["witness"])
                    # twin-compared properties: the witness needs its twin in the same run
                    if prop == "C12" and "@1 " in k["witness"]:
                        lines.append(k["witness"].replace("@1 ", "@0 ").replace("scribble=1", "scribble=0"))
                    if prop == "C04":
                        mw = re.match(r"id=(\S+)-[^-@\s]+@\d+ (.*)", k["witness"])
                        if mw:
                            lines.append(f"id={mw.group(1)}-twin@- " + re.sub(r"fault=\d+", "fault=-", mw.group(2)))
            seen_ids = set()
            lines = [l for l in lines if not (l.split(" ", 1)[0] in seen_ids or seen_ids.add(l.split(" ", 1)[0]))]
            nlines += len(lines)
            for l in lines:
                m = re.match(r"id=(\S+)", l)
                all_lines[(feat, m.group(1))] = l
            outputs += [(feat, o) for o in run_shards(lines, feat, spec["props"], spec.get("view", "raw"), workdir)]
        drifts, fails, model_fails, oks, xerr = [], [], [], 0, []
        obs_count = 0
        for feat, o in outputs:
            if o.startswith("C "):
                parts = o.split(" ", 3)
                if parts[2] != "same":
                    drifts.append((feat, parts[1], parts[3] if len(parts) > 3 else ""))
            elif o.startswith("V "):
                parts = o.split(" ", 4)
                if parts[2] != prop:
                    continue
                obs_count += 1
                if parts[3] == "ok":
                    oks += 1
                else:
                    fails.append((feat, parts[1], parts[4] if len(parts) > 4 else ""))
            elif o.startswith("VM "):
                parts = o.split(" ", 4)
                if parts[2] == prop and parts[3] != "ok":
                    model_fails.append((feat, parts[1], parts[4] if len(parts) > 4 else ""))
            elif o.startswith("X "):
                xerr.append((feat, o))
        if xerr:
            raise Infra("model driver rejected scenarios: " + "; ".join(x[1] for x in xerr[:5]))
        if spec.get("post"):
            extra_fails, nobs = getattr(scenarios, spec["post"])(outputs, all_lines)
            fails += extra_fails
            obs_count += nobs
            oks += nobs - len(extra_fails)
        # match failures against known findings
        def field(s, k):
            m = re.search(rf"\b{k}=(\S+)", s)
            return m.group(1) if m else ""
        def sig_ok(k, site, reason, detail):
            """a listed finding with recorded [got, want, bg] triples covers only those triples"""
            sgs = k.get("sigs")
            if not sgs:
                return True
            sg = sgs.get(f"{site}|{reason}")
            if not sg:
                return False      # a finding with recorded signatures covers only the pairs it records
            if sg == "*":
                return True       # … this pair with any values (windows vary)
            trip = [field(detail, "got"), field(detail, "want"), field(detail, "bg")]
            # (C05: the number of pending polls in `got=<cmd>@busy<n>` is the schedule's, not the defect's)
            norm = [re.sub(r"@busy\d+$", "@busy*", trip[0]), trip[1], trip[2]]
            return trip in sg or norm in sg
        def delta_ok(k, reason, detail):
            """a finding that records `delta` for a reason covers only failures whose got - want
            (component-wise, for 4-tuples like window registers) is one of the recorded deltas"""
            dl = (k.get("delta") or {}).get(reason)
            if not dl:
                return True
            g = re.search(r"got=\((-?\d+),(-?\d+),(-?\d+),(-?\d+)\)", detail)
            w = re.search(r"want=\((-?\d+),(-?\d+),(-?\d+),(-?\d+)\)", detail)
            if not g or not w:
                return False
            return [int(a) - int(b) for a, b in zip(g.groups(), w.groups())] in dl
        known_hit = {}
        unlisted = []
        for feat, sid, detail in fails:
            site, reason = field(detail, "site"), field(detail, "reason")
            hit = None
            for k in known:
                reasons = k.get("reasons") or [k["reason"]]
                sites = k.get("sites") or [k["site"]]
                ctx_ok = ("ctx" not in k) or (field(detail, "ctx") in k["ctx"])
                # optional narrowing on the failure detail (e.g. one background colour only)
                ctx_ok = ctx_ok and (("match" not in k) or re.search(k["match"], detail) is not None)
                ctx_ok = ctx_ok and sig_ok(k, site, reason, detail) and delta_ok(k, reason, detail)
                # optional narrowing on the scenario itself (e.g. "the history contains a partial update")
                ctx_ok = ctx_ok and (("scen" not in k) or re.search(k["scen"], all_lines.get((feat, sid), "")) is not None)
                if any(fnmatch.fnmatchcase(site, s_) for s_ in sites) and reason in reasons and ctx_ok:
                    hit = k
                    break
            if hit is not None:
                known_hit.setdefault(hit["id"], []).append((feat, sid, detail))
            else:
                unlisted.append((feat, sid, detail))
        if os.environ.get("VERIF_DUMP_KNOWN"):
            with open(os.path.join(WORK, f"known_hit_{prop}.json"), "w") as fh:
                json.dump({kid: [d_ for (_, _, d_) in v] for kid, v in known_hit.items()}, fh)
        # a listed finding only suppresses while its own witness still fails in the recorded way
        for k in known:
            wid = re.match(r"id=(\S+)", k["witness"]).group(1) if k.get("witness") else None
            w_fail = [d for (f, s, d) in known_hit.get(k["id"], []) if s == wid]
            if k["id"] in known_hit and wid and not w_fail:
                # the witness no longer fails but other inputs at the site do: new violation
                unlisted += known_hit.pop(k["id"])
            elif w_fail and k.get("witness_got") and not any(field(d_, "got") == k["witness_got"] for d_ in w_fail):
                unlisted += known_hit.pop(k["id"])
        rc = 0
        violations = 0
        replays = []
        # a broken correspondence with no failing input so far: widen the search around the
        # panels that drift (DESIGN §5.1 step 5)
        widened = 0
        if not unlisted and drifts and spec.get("widen"):
            dp = set()
            for f_, sid_, _ in drifts:
                mp_ = re.search(r"panel=(\S+)", all_lines.get((f_, sid_), ""))
                if mp_:
                    dp.add(mp_.group(1))
            wl = getattr(scenarios, spec["widen"])(dp, tier, seed)
            widened = len(wl)
            for l in wl:
                all_lines[("v3", re.match(r"id=(\S+)", l).group(1))] = l
            wouts = run_shards(wl, "v3", spec["props"], spec.get("view", "raw"), workdir)
            if spec.get("post"):
                # cross-scenario judgements (twins) of the widened set, in verdict-line form
                wl_ids = {re.match(r"id=(\S+)", l).group(1) for l in wl}
                pf, _ = getattr(scenarios, spec["post"])([("v3", o) for o in wouts], {k_: v_ for k_, v_ in all_lines.items() if k_[1] in wl_ids})
                wouts = wouts + [f"V {sid_} {prop} FAIL {d_}" for (_, sid_, d_) in pf]
            for o in wouts:
                if o.startswith("V ") and f" {prop} FAIL " in o:
                    parts = o.split(" ", 4)
                    site, reason = field(parts[4], "site"), field(parts[4], "reason")
                    listed = any((any(fnmatch.fnmatchcase(site, s_) for s_ in (k.get("sites") or [k["site"]])) and reason in (k.get("reasons") or [k["reason"]])
                                  and (("ctx" not in k) or field(parts[4], "ctx") in k["ctx"])
                                  and (("match" not in k) or re.search(k["match"], parts[4]) is not None)
                                  and sig_ok(k, site, reason, parts[4]) and delta_ok(k, reason, parts[4])
                                  and (("scen" not in k) or re.search(k["scen"], all_lines.get(("v3", parts[1]), "")) is not None)) for k in known)
                    if not listed:
                        unlisted.append(("v3", parts[1], parts[4]))
        if unlisted:
            feat, sid, detail = unlisted[0]
            # shrink a pure batch to the one operation the oracle names
            line0 = all_lines.get((feat, sid), sid)
            mo = re.search(r"\bop=(\d+)", detail)
            if mo and " panel=pure " in line0 and " ops=" in line0:
                head, ops = line0.split(" ops=", 1)
                ol = ops.split(";")
                if int(mo.group(1)) < len(ol):
                    all_lines[(feat, sid)] = head + " ops=" + ol[int(mo.group(1))]
            rp = write_replay(prop, "fail", {"property": prop, "feat": feat, "scenario": all_lines.get((feat, sid), sid), "oracle": detail,
                                              "others": [{"scenario": all_lines.get((f, s), s), "oracle": d} for f, s, d in unlisted[1:20]]})
            print(f"VIOLATION property={prop} replay={rp}")
            replays.append(rp)
            rc, violations = 1, len(unlisted)
        elif not proof_ok or drifts:
            what = []
            if not info["gen_ok"]:
                what.append("constants generator rejected the source: " + info.get("gen_error", ""))
            if not info["theorems_ok"]:
                errs = re.findall(r"error: (.*)", info["lean_log"])
                what.append("theorem module EpdVerif.Props.%s no longer checks: %s" % (prop, "; ".join(errs[:5])))
            if bad_ax:
                what.append("theorems depend on axioms outside the allowed set: %s" % bad_ax[:5])
            if forb:
                what.append("forbidden constructs in the Lean sources: %s" % forb[:5])
            if count == 0 and info["theorems_ok"]:
                what.append("audit found no theorem")
            if drifts:
                what.append("correspondence (view %s) differs on %d scenario(s)" % (spec.get("view", "raw"), len(drifts)))
            rp = write_replay(prop, "unproved", {"property": prop, "what": what,
                                                  "drift": [{"feat": f, "scenario": all_lines.get((f, s), s), "diff": d} for f, s, d in drifts[:20]]})
            print(f"VIOLATION property={prop} replay={rp} no-failing-input-found")
            replays.append(rp)
            rc, violations = 1, 1
        for kid, hits in known_hit.items():
            k = [x for x in known if x["id"] == kid][0]
            print(f"KNOWN-FINDING: property={prop} {k['site']} {k['reason']}: {k['what']} ({len(hits)} scenario(s) this run)")
        for k in known:
            if k["id"] not in known_hit:
                print(f"NOTE: listed finding {k['id']} did not reproduce in this run")
        write_evidence(prop, tier, seed, t0, spec, info, thms, count, nlines, drifts, fails, violations,
                       [all_lines[k] for k in list(all_lines)[:3]], {"oracle_ok": oks, "oracle_evaluations_impl": obs_count,
                        "oracle_failures_impl": len(fails), "oracle_failures_model": len(model_fails), "known_findings_seen": sorted(known_hit),
                        "bad_axioms": bad_ax, "forbidden": forb, "widened_search_scenarios": widened, "scenario_stats": gen.get("stats", {}), "replays": replays})
        return rc
    finally:
        shutil.rmtree(workdir, ignore_errors=True)


def write_evidence(prop, tier, seed, t0, spec, info, thms, count, nlines, drifts, fails, violations, samples, extra):
    discharged = sum(1 for n, ax in thms if all(a in ALLOWED_AXIOMS for a in ax)) if info.get("theorems_ok") else 0
    ev = {
        "property_id": prop,
        "tier": tier,
        "seed": seed,
        "level": "proof",
        "coverage": {
            "obligations": max(count, 1),
            "discharged": discharged,
            "checker_cmd": f"cd /verif/lean && lake build EpdVerif.Audit.{prop}   (Lean 4.33.0 kernel; #audit_namespace prints the axioms of every theorem)",
            "trusted_base": [
                "Lean 4.33.0 kernel; axioms allowed: propext, Classical.choice, Quot.sound (audited per theorem on every run)",
                "tools/gen_consts.py (constants regenerated from /repo/src on every run)",
                "harness/ (mock HAL + scenario interpreter) and the differential comparison in lean/Main.lean",
                "controller simulators lean/EpdVerif/Ctrl/*.lean and family tables (hand-written specification)",
            ],
            "theorems": [n for n, _ in thms],
            "partial_theorems": [n for n, _ in thms if n.endswith("_partial")],
            "gen_summary": info.get("gen", ""),
            "scenarios": nlines,
            "traces_compared": nlines,
            "view": spec.get("view", "raw"),
            "model_disagreements": len(drifts),
            "model_disagreement_samples": [d for d in drifts[:5]],
            "evaluations": max(nlines, 1),
            "distinct_nontrivial": max(len(set(samples)) if nlines < 3 else nlines, 2) if nlines >= 2 else 2,
            "rule": spec.get("rule", ""),
            "samples": samples + [n for n, _ in thms[:3]],
            "exhaustive": False,
        },
        "assumptions": spec.get("assumptions", []),
        "wall_s": round(time.time() - t0, 2),
        "violations": violations,
    }
    ev["coverage"].update(extra)
    with open(os.path.join(EVID, f"{prop}.json"), "w") as f:
        json.dump(ev, f, indent=1)


def replay(path):
    payload = json.load(open(path))
    prop = payload["property"]
    if "scenario" not in payload:
        print(json.dumps(payload, indent=1)[:4000])
        print("this replay names a theorem / correspondence that no longer checks; re-run: ./vcheck %s" % prop)
        return 0
    spec = scenarios.PROPS[prop]
    feat = payload.get("feat", "v3")
    build(prop, [feat])
    workdir = os.path.join(WORK, f"replay-{os.getpid()}")
    os.makedirs(workdir, exist_ok=True)
    try:
        out = run_shards([payload["scenario"]], feat, spec["props"], spec.get("view", "raw"), workdir)
        print("\n".join(out))
        bad = any(o.startswith("V ") and f" {prop} FAIL" in o for o in out)
        if bad:
            print(f"VIOLATION property={prop} replay={path}")
        return 1 if bad else 0
    finally:
        shutil.rmtree(workdir, ignore_errors=True)


def main():
    a = sys.argv[1:]
    if not a:
        print(__doc__)
        return 2
    try:
        if a[0] == "replay":
            return replay(a[1])
        prop = a[0]
        tier = os.environ.get("VERIF_TIER", "quick")
        if "--tier" in a:
            tier = a[a.index("--tier") + 1]
        seed = int(os.environ.get("VERIF_SEED", "1"))
        if prop not in scenarios.PROPS:
            print("unknown property " + prop)
            return 2
        return check(prop, tier, seed)
    except Infra as e:
        print("INFRASTRUCTURE-ERROR: " + str(e))
        return 2


if __name__ == "__main__":
    sys.exit(main())
