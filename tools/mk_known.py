#!/usr/bin/env python3
"""development aid (NOT run by the checks): runs a property's quick AND thorough scenarios on the
current tree and prints candidate known-finding entries grouped by panel, for manual curation into
known_findings.json"""
import sys, os, re, json, collections, shutil, subprocess
sys.path.insert(0, os.path.dirname(os.path.abspath(__file__)))
import check, scenarios
WHAT = json.load(open(os.path.join(check.ROOT, "tools", "finding_texts.json")))
prop = sys.argv[1]
spec = scenarios.PROPS[prop]
wd = os.path.join(check.WORK, "mk-%d" % os.getpid()); os.makedirs(wd, exist_ok=True)
class Ctx:
    def harness(self, lines, feat):
        sf = os.path.join(wd, "pre.txt"); open(sf, "w").write("\n".join(lines) + "\n")
        return subprocess.run([check.harness_bin(feat)], stdin=open(sf), stdout=subprocess.PIPE, text=True).stdout
groups = collections.OrderedDict()
for tier in ("quick", "thorough"):
    gen = spec["gen"](tier, 1, Ctx()) if spec.get("ctx") else spec["gen"](tier, 1)
    for feat in spec.get("feats", ["v3"]):
        lines = gen.get(feat, [])
        byid = {re.match(r"id=(\S+)", l).group(1): l for l in lines}
        outputs = [(feat, o) for o in check.run_shards(lines, feat, spec["props"], spec.get("view", "raw"), wd)]
        fails = [(f, o.split(" ", 4)[1], o.split(" ", 4)[4]) for f, o in outputs if o.startswith("V ") and f" {prop} FAIL " in o]
        if spec.get("post"):
            fails += getattr(scenarios, spec["post"])(outputs, {})[0]
        for f, sid, d in fails:
            site = re.search(r"site=(\S+)", d).group(1); reason = re.search(r"reason=(\S+)", d).group(1)
            panel = site.split("/")[0]
            g = groups.setdefault((panel, feat if panel == "epd2in13_v2" and feat == "v2" else "v3"), {"reasons": set(), "sites": set(), "wit": None})
            g["reasons"].add(reason); g["sites"].add(site)
            if g["wit"] is None and tier == "quick" and sid in byid:
                g["wit"] = (byid[sid], re.search(r"got=(\S+)", d).group(1), site, reason)
shutil.rmtree(wd, ignore_errors=True)
out = []
for (panel, feat), g in groups.items():
    if g["wit"] is None:
        print("NO QUICK WITNESS", panel, g["reasons"], file=sys.stderr); continue
    wl, got, wsite, wreason = g["wit"]
    wl = re.sub(r"^id=\S+", f"id=kf-{prop}-{panel}{'-v2' if feat=='v2' else ''}", wl)
    sites = sorted(g["sites"])
    e = {"id": f"KF-{prop}-{panel}{'-v2' if feat=='v2' else ''}", "property": prop, "status": "open", "site": wsite, "sites": sites, "reason": wreason, "reasons": sorted(g["reasons"]),
         "witness": wl, "witness_got": got, "what": WHAT.get(f"{prop}/{panel}", "TODO"), "scope": ", ".join(sites)}
    if feat != "v3":
        e["feat"] = feat
    out.append(e)
print(json.dumps(out, indent=1))
