#!/usr/bin/env python3
"""development aid (NOT run by the checks): runs a property's quick AND thorough scenarios on the
current tree and prints candidate known-finding entries grouped by panel, for manual curation into
known_findings.json"""
import sys, os, re, json, collections, shutil, subprocess
sys.path.insert(0, os.path.dirname(os.path.abspath(__file__)))
import check, scenarios
WHAT = json.load(open(os.path.join(check.ROOT, "tools", "finding_texts.json")))
prop = sys.argv[1]
spec = scenarios.PROPS[prop]
wd = os.path.join(check.WORK, "mk-%d" % os.getpid()); os.makedirs(wd, exist_ok=True)
class Ctx:
    def harness(self, lines, feat):
        sf = os.path.join(wd, "pre.txt"); open(sf, "w").write("\n".join(lines) + "\n")
        return subprocess.run([check.harness_bin(feat)], stdin=open(sf), stdout=subprocess.PIPE, text=True).stdout
groups = collections.OrderedDict()
for tier, seed in (("quick", 1), ("quick", 2), ("quick", 3), ("quick", 4), ("thorough", 1)):
    gen = spec["gen"](tier, seed, Ctx()) if spec.get("ctx") else spec["gen"](tier, seed)
    for feat in spec.get("feats", ["v3"]):
        lines = gen.get(feat, [])
        byid = {re.match(r"id=(\S+)", l).group(1): l for l in lines}
        outputs = [(feat, o) for o in check.run_shards(lines, feat, spec["props"], spec.get("view", "raw"), wd)]
        fails = [(f, o.split(" ", 4)[1], o.split(" ", 4)[4]) for f, o in outputs if o.startswith("V ") and f" {prop} FAIL " in o]
        if spec.get("post"):
            fails += getattr(scenarios, spec["post"])(outputs, {})[0]
        for f, sid, d in fails:
            site = re.search(r"site=(\S+)", d).group(1); reason = re.search(r"reason=(\S+)", d).group(1)
            panel = site.split("/")[0]
            g = groups.setdefault((panel, "v3"), {"reasons": set(), "sites": set(), "wit": None, "ctx": set()})
            g["reasons"].add(reason); g["sites"].add(site)
            mc = re.search(r"ctx=(\S+)", d)
            if mc: g["ctx"].add(mc.group(1))
            if g["wit"] is None and tier == "quick" and seed == 1 and sid in byid:
                g["wit"] = (byid[sid], re.search(r"got=(\S+)", d).group(1), site, reason)
shutil.rmtree(wd, ignore_errors=True)
out = []
for (panel, feat), g in groups.items():
    if g["wit"] is None:
        print("NO QUICK WITNESS", panel, g["reasons"], file=sys.stderr); continue
    wl, got, wsite, wreason = g["wit"]
    if prop in ("C04", "C12"):
        # twin-compared properties keep the twin naming of the witness id
        wl = re.sub(r"^id=(\S+)", lambda m: "id=kf-" + m.group(1), wl)
    else:
        wl = re.sub(r"^id=\S+", f"id=kf-{prop}-{panel}{'-v2' if feat=='v2' else ''}", wl)
    sites = sorted(g["sites"])
    e = {"id": f"KF-{prop}-{panel}{'-v2' if feat=='v2' else ''}", "property": prop, "status": "open", "site": wsite, "sites": sites, "reason": wreason, "reasons": sorted(g["reasons"]),
         "witness": wl, "witness_got": got, "what": WHAT.get(f"{prop}/{panel}", "TODO"), "scope": ", ".join(sites)}
    # only findings that exist in ONE history class carry a ctx restriction
    if g["ctx"] and len(g["ctx"]) == 1 and f"{prop}/{panel}" in ("C06/epd1in02",):
        e["ctx"] = sorted(g["ctx"])
    out.append(e)
print(json.dumps(out, indent=1))
