"""Panel table (dumped from the Lean model: single source of truth) and scenario-line helpers."""
import os, subprocess

ROOT = os.path.dirname(os.path.dirname(os.path.abspath(__file__)))
_cache = {}


class P:
    def __init__(self, f):
        self.name, self.w, self.h, self.family = f[1], int(f[2]), int(f[3]), f[4]
        self.single, self.busylow, self.colors = f[5] == "1", f[6] == "1", int(f[7])
        self.raise_, self.busylvl = f[8], f[9]
        self.ops = {}
        for o in f[10].split(","):
            self.ops[o.rstrip("!")] = not o.endswith("!")
        self.wb = (self.w + 7) // 8
        self.w8 = self.w // 8 * 8
        self.n = self.wb * self.h
        if self.name in ("epd5in65f", "epd7in3f"):
            self.n = self.w * self.h // 2

    def frame(self, op="upd"):
        if self.name == "epd7in5b_v2" and op in ("upd", "updisp"):
            return 2 * self.n
        return self.n

    def has(self, op):
        """implemented (not `unimplemented!()` / no-op)"""
        if op == "lut":
            # every driver whose set_lut accepts a mode (uploads tables, stores the mode, or ignores it)
            return self.ops.get("lutsel", False)
        if op == "refresh":
            return self.name == "epd2in13_v2"
        return self.ops.get(op, False)


LUT_PANELS = ["epd1in02", "epd1in54", "epd1in54_v2", "epd2in9", "epd2in13_v2", "epd3in7", "epd4in2", "epd2in7", "epd2in7b",
              "epd2in9d", "epd1in54b"]


def table(feat="v3"):
    if feat not in _cache:
        exe = os.path.join(ROOT, "lean", ".lake", "build", "bin", "epdmodel")
        out = subprocess.run([exe, "table"] + ([feat] if feat != "v3" else []), stdout=subprocess.PIPE, text=True, check=True).stdout
        _cache[feat] = {l.split()[1]: P(l.split()) for l in out.splitlines() if l.startswith("P ")}
    return _cache[feat]


def line(sid, p, ops, delay="none", sched="-", fault="-", scribble=0, busylvl=None):
    return (f"id={sid} panel={p.name} delay={delay} sched={sched} raise={p.raise_} busylvl={p.busylvl if busylvl is None else busylvl} "
            f"fault={fault} scribble={scribble} ops=" + ";".join(ops))


def windows(p, rnd, n_random=4, small=False):
    """byte-aligned windows inside the panel: (x, y, w, h)"""
    W8, H = p.w8, p.h
    ws = [(0, 0, 8, 1), (0, 0, W8, 1), (W8 - 8, H - 1, 8, 1), (8, 16, 16, 8), (0, 0, W8, H), (W8 - 16, 0, 16, H), (0, H - 3, W8, 3),
          (8, 1, 8, H - 2)]
    if W8 > 256:
        ws += [(256, 8, 8, 4), (W8 - 8, 0, 8, 2), (248, 3, 24, 5)]
        ws += [(240, 0, 16, 4), (248, 3, 8, 2), (232, 5, 16, 3)]     # exclusive end exactly 256 / one byte short
    if H > 256:
        ws += [(0, 250, 16, 10), (8, 255, 8, 2), (0, 256, 8, 1)]
        # exclusive end exactly 256 / last row exactly 255 (carry into the high byte), and one short of it
        ws += [(8, 246, 16, 10), (0, 255, 8, 1), (0, 200, 8, 56), (16, 245, 8, 10)]
    for _ in range(n_random):
        w = rnd.randrange(1, W8 // 8 + 1) * 8
        x = rnd.randrange(0, (W8 - w) // 8 + 1) * 8
        h = rnd.randint(1, H if not small else min(H, 40))
        y = rnd.randint(0, H - h)
        ws.append((x, y, w, h))
    out = []
    for (x, y, w, h) in ws:
        if x >= 0 and y >= 0 and w > 0 and h > 0 and x + w <= W8 and y + h <= H and (x, y, w, h) not in out:
            out.append((x, y, w, h))
    return out
