"""Scenario generation per property (all random choices from one PRNG seeded by VERIF_SEED)."""
import random

PURE = "panel=pure delay=none sched=- raise=- busylvl=0 fault=- scribble=0"


def pure_line(sid, ops):
    return f"id={sid} {PURE} ops=" + ";".join(ops)


def gen_c16(tier, seed):
    rnd = random.Random(seed * 7919 + 16)
    n_small = 6 if tier == "quick" else 12
    lines = []
    # individual pairs: exhaustive small grid through the pixel-set oracle (Lean side) is the
    # rectgrid batch; here individually printed pairs incl. boundary / overflow / underflow
    ops = []
    U = 2 ** 32
    edge = [0, 1, 2, 7, 12, U // 2, U - 13, U - 2, U - 1]
    cnt = 0
    for _ in range(400 if tier == "quick" else 4000):
        def coord():
            r = rnd.random()
            if r < 0.5:
                return rnd.randint(0, n_small)
            if r < 0.8:
                return rnd.choice(edge)
            return rnd.randint(0, U - 1)
        v = [coord() for _ in range(10)]
        ops.append("rect," + ",".join(map(str, v)))
        if len(ops) == 50:
            lines.append(pure_line(f"r{cnt}", ops))
            cnt += 1
            ops = []
    if ops:
        lines.append(pure_line(f"r{cnt}", ops))
    # exhaustive small pairs individually (all fields 0..=2: 6561 pairs) so the pixel oracle sees them
    ops = []
    k = 0
    rng = range(0, 3)
    for ax in rng:
        for ay in rng:
            for aw in rng:
                for ah in rng:
                    for bx in rng:
                        for by in rng:
                            for bw in rng:
                                for bh in rng:
                                    ops.append(f"rect,{ax},{ay},{aw},{ah},{bx},{by},{bw},{bh},{min(ax,bx)},{min(ay,by)}")
                                    if len(ops) == 200:
                                        lines.append(pure_line(f"g{k}", ops))
                                        k += 1
                                        ops = []
    if ops:
        lines.append(pure_line(f"g{k}", ops))
    lines.append(pure_line("grid", [f"rectgrid,{5 if tier == 'quick' else 8}"]))
    return {"v3": lines, "stats": {"rect_lines": len(lines), "grid_n": 5 if tier == "quick" else 8}}


PROPS = {
    "C16": {
        "props": ["C16"], "view": "raw", "gen": gen_c16,
        "rule": "rect ops: random/boundary u32 rectangles (incl. overflow and underflow cases), all pairs with fields in 0..=2 individually (pixel-set oracle evaluated on the implementation's results), hash of all pairs with fields in 0..=5 (quick) / 0..=8 (thorough); a case is non-trivial when both rectangles are non-empty",
        "assumptions": ["dev/test profile: u32 overflow panics (release wraps)"],
    },
}
