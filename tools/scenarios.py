"""Scenario generation per property (all random choices from one PRNG seeded by VERIF_SEED)."""
import random

PURE = "panel=pure delay=none sched=- raise=- busylvl=0 fault=- scribble=0"


def pure_line(sid, ops):
    return f"id={sid} {PURE} ops=" + ";".join(ops)


def gen_c16(tier, seed):
    rnd = random.Random(seed * 7919 + 16)
    n_small = 6 if tier == "quick" else 12
    lines = []
    # individual pairs: exhaustive small grid through the pixel-set oracle (Lean side) is the
    # rectgrid batch; here individually printed pairs incl. boundary / overflow / underflow
    ops = []
    U = 2 ** 32
    edge = [0, 1, 2, 7, 12, U // 2, U - 13, U - 2, U - 1]
    cnt = 0
    for _ in range(400 if tier == "quick" else 4000):
        def coord():
            r = rnd.random()
            if r < 0.5:
                return rnd.randint(0, n_small)
            if r < 0.8:
                return rnd.choice(edge)
            return rnd.randint(0, U - 1)
        v = [coord() for _ in range(10)]
        ops.append("rect," + ",".join(map(str, v)))
        if len(ops) == 50:
            lines.append(pure_line(f"r{cnt}", ops))
            cnt += 1
            ops = []
    if ops:
        lines.append(pure_line(f"r{cnt}", ops))
    # exhaustive small pairs individually (all fields 0..=2: 6561 pairs) so the pixel oracle sees them
    ops = []
    k = 0
    rng = range(0, 3)
    for ax in rng:
        for ay in rng:
            for aw in rng:
                for ah in rng:
                    for bx in rng:
                        for by in rng:
                            for bw in rng:
                                for bh in rng:
                                    ops.append(f"rect,{ax},{ay},{aw},{ah},{bx},{by},{bw},{bh},{min(ax,bx)},{min(ay,by)}")
                                    if len(ops) == 200:
                                        lines.append(pure_line(f"g{k}", ops))
                                        k += 1
                                        ops = []
    if ops:
        lines.append(pure_line(f"g{k}", ops))
    lines.append(pure_line("grid", [f"rectgrid,{5 if tier == 'quick' else 8}"]))
    return {"v3": lines, "stats": {"rect_lines": len(lines), "grid_n": 5 if tier == "quick" else 8}}


def gen_c14(tier, seed):
    rnd = random.Random(seed * 7919 + 14)
    lines = []
    for d in ["bytes", "enc", "mask", "raw", "rgb565", "rgb555"]:
        lines.append(pure_line(f"c14-{d}", [f"color,{d}"]))
    if tier == "quick":
        for k in range(4):
            lines.append(pure_line(f"c14-rgb888-{k}", [f"color,rgb888,61,{rnd.randint(0, 60)}"]))
    else:
        # all 2^24 values, in 16 interleaved shards
        for k in range(16):
            lines.append(pure_line(f"c14-rgb888-{k}", [f"color,rgb888,16,{k}"]))
    # individual boundary values around the brightness threshold and the palette
    ops = []
    for (r, g, b) in [(0, 0, 0), (255, 255, 255), (127, 128, 127), (128, 128, 127), (128, 127, 127), (255, 128, 0), (254, 128, 1),
                      (0, 0, 1), (255, 255, 254), (200, 100, 82), (200, 100, 83)] + [(rnd.randint(0, 255), rnd.randint(0, 255), rnd.randint(0, 255)) for _ in range(40)]:
        ops.append(f"color,rgbone,888,{r},{g},{b}")
    for i in range(0, len(ops), 10):
        lines.append(pure_line(f"c14-one888-{i}", ops[i:i + 10]))
    return {"v3": lines, "stats": {"lines": len(lines), "rgb888": "stride 61 x4 offsets" if tier == "quick" else "all 2^24 values"}}


ALIASES = {  # panel -> (kind, number of colours)
    "epd1in02": ("bw", 2), "epd1in54": ("bw", 2), "epd1in54_v2": ("bw", 2), "epd1in54b": ("bw", 2), "epd1in54c": ("bw", 2),
    "epd2in13_v2": ("bw", 2), "epd2in13b_v4": ("tri", 3), "epd2in13bc": ("tri", 3), "epd2in66b": ("tri", 3), "epd2in7": ("bw", 2),
    "epd2in7_v2": ("bw", 2), "epd2in7b": ("bw", 2), "epd2in9": ("bw", 2), "epd2in9_v2": ("bw", 2), "epd2in9b_v4": ("tri", 3),
    "epd2in9bc": ("bw", 2), "epd2in9d": ("bw", 2), "epd3in7": ("bw", 2), "epd4in2": ("bw", 2), "epd5in65f": ("oct", 8),
    "epd5in83_v2": ("bw", 2), "epd5in83b_v2": ("tri", 3), "epd7in3f": ("oct", 8), "epd7in5": ("bw", 2), "epd7in5_hd": ("bw", 2),
    "epd7in5_v2": ("bw", 2), "epd7in5b_v2": ("tri", 3),
}
NCOL = {"bw": 2, "tri": 3, "oct": 8}


def gen_c03(tier, seed):
    rnd = random.Random(seed * 7919 + 3)
    lines = []
    n = 0
    if tier == "quick":
        targets = ["epd1in02", "epd2in13b_v4", "epd5in65f"]
    else:
        targets = list(ALIASES)
    for t in targets:
        kind, ncol = ALIASES[t]
        cols = list(range(ncol))
        if tier == "quick" and ncol > 3:
            cols = rnd.sample(cols, 3)
        for rot in (0, 90, 180, 270):
            for c in cols:
                lines.append(pure_line(f"c03-a{n}", [f"setpx,{t},{rot},{c},{rnd.randint(1, 10**6)},grid"]))
                n += 1
            lines.append(pure_line(f"c03-x{n}", [f"setpx,{t},{rot},{rnd.randrange(ncol)},{rnd.randint(1, 10**6)},ext"]))
            n += 1
    # run-time sized buffers: every geometry x colour type x rotation
    gmax = 16 if tier == "quick" else 40
    ops = []
    for w in range(1, gmax + 1):
        for h in range(1, gmax + 1):
            for kind in ("bw", "tri", "oct"):
                for rot in (0, 90, 180, 270):
                    if tier != "quick" and max(w, h) > 16 and rnd.random() < 0.5:
                        continue
                    ops.append(f"setpx,var:{w}:{h}:{kind}:{rnd.randint(0, 1)}:{rnd.randint(0, 3)},{rot},{rnd.randrange(NCOL[kind])},{rnd.randint(1, 10**6)},grid")
    for i in range(0, len(ops), 40):
        lines.append(pure_line(f"c03-v{i}", ops[i:i + 40]))
    ops = []
    for (w, h) in [(1, 1), (7, 3), (8, 8), (9, 2), (13, 5), (16, 16), (33, 9)]:
        for kind in ("bw", "tri", "oct"):
            for rot in (0, 90, 180, 270):
                ops.append(f"setpx,var:{w}:{h}:{kind}:{rnd.randint(0, 1)}:2,{rot},{rnd.randrange(NCOL[kind])},{rnd.randint(1, 10**6)},ext")
    for i in range(0, len(ops), 12):
        lines.append(pure_line(f"c03-e{i}", ops[i:i + 12]))
    return {"v3": lines, "stats": {"alias_targets": targets, "var_geometries_max": gmax, "batches": n + len(ops)}}


def gen_c13(tier, seed):
    rnd = random.Random(seed * 7919 + 13)
    lines = [pure_line("c13-alias", ["alias"])]
    gmax = 64
    ops = []

    def lb(w, bpp):
        return (w * bpp + 7) // 8
    for w in range(0, gmax + 1):
        for h in range(0, gmax + 1):
            if tier == "quick" and (w > 20 and h > 20) and rnd.random() < 0.8:
                continue
            for kind, bpp, planes in (("bw", 1, 1), ("tri", 1, 2), ("oct", 4, 1)):
                req = planes * h * lb(w, bpp)
                acc = h * lb(w, bpp * planes)
                for ln in sorted({max(req - 1, 0), req, req + 1, 0, max(acc - 1, 0), acc}):
                    ops.append(f"vardisp,{w},{h},{kind},{ln}")
    for i in range(0, len(ops), 400):
        lines.append(pure_line(f"c13-v{i}", ops[i:i + 400]))
    g = 20 if tier == "quick" else 64
    lines.append(pure_line("c13-grid", [f"vargrid,{g},{g}"]))
    b = 512 if tier == "quick" else 2048
    lines.append(pure_line("c13-buflen", [f"buflen,{b},{b}"]))
    return {"v3": lines, "stats": {"vardisp_ops": len(ops), "vargrid": g, "buflen_grid": b}}


PROPS = {
    "C03": {
        "props": ["C03"], "view": "raw", "gen": gen_c03,
        "rule": "setpx batches: the real set_pixel / draw_iter is called for every point of [-3,W+3]x[-3,H+3] (mode grid) or the i32 extremes (mode ext) on a PRNG-filled buffer; after every call the whole exposed buffer is compared with its previous state and (index, new byte) of every changed byte is hashed; the model predicts the same hash. quick: 3 aliases (bw / tri with width 122 / oct) x 4 rotations x colours, all VarDisplay geometries 1..16^2 x 3 colour types x 4 rotations; thorough: all 27 aliases x all colours, geometries to 40^2. non-trivial = batches that changed at least one byte",
        "assumptions": ["dev/test profile (i32 overflow panics)", "width, height < 2^30 (as i32 casts exact)"],
    },
    "C13": {
        "props": ["C13"], "view": "raw", "gen": gen_c13,
        "rule": "alias table printed from the compiled crate (27 rows: size(), buffer().len(), zero-init, halves, observed BWRBIT); VarDisplay::new for w,h in 0..=64 x 3 colour types x lengths {need-1, need, need+1, 0, accepted-1, accepted}; vargrid: every pixel of every accepted buffer drawn (0..=20 quick / 0..=64 thorough); buffer_len hashed over 0..=512^2 (quick) / 0..=2048^2 (thorough)",
        "assumptions": [],
    },
    "C14": {
        "props": ["C14"], "view": "raw", "gen": gen_c14,
        "rule": "every domain of the colour API printed by the real functions: all 256 bytes (from_u8, from_nibble, split_byte), all colours (bit/byte/nibble/rgb/inverse), all 64 pairs, bitmask for 16 positions x 2 bwrbit x 13 colours, all raw values, BinaryColor, all 65536 Rgb565 and 32768 Rgb555 values, Rgb888: 4 strided samples of 275k values (quick) / all 2^24 (thorough); compared with the model and checked by the oracle (round trips, brightness-nearest spec); non-trivial = every op (each covers a whole domain)",
        "assumptions": ["embedded-graphics RGB types expose raw channel values r(),g(),b() with maxima 255/31/63 (documented contract)"],
    },
    "C16": {
        "props": ["C16"], "view": "raw", "gen": gen_c16,
        "rule": "rect ops: random/boundary u32 rectangles (incl. overflow and underflow cases), all pairs with fields in 0..=2 individually (pixel-set oracle evaluated on the implementation's results), hash of all pairs with fields in 0..=5 (quick) / 0..=8 (thorough); a case is non-trivial when both rectangles are non-empty",
        "assumptions": ["dev/test profile: u32 overflow panics (release wraps)"],
    },
}
