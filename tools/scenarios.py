"""Scenario generation per property (all random choices from one PRNG seeded by VERIF_SEED)."""
import os, sys
import random, re

PURE = "panel=pure delay=none sched=- raise=- busylvl=0 fault=- scribble=0"


def pure_line(sid, ops):
    return f"id={sid} {PURE} ops=" + ";".join(ops)


def gen_c16(tier, seed):
    rnd = random.Random(seed * 7919 + 16)
    n_small = 6 if tier == "quick" else 12
    lines = []
    # individual pairs: exhaustive small grid through the pixel-set oracle (Lean side) is the
    # rectgrid batch; here individually printed pairs incl. boundary / overflow / underflow
    ops = []
    U = 2 ** 32
    edge = [0, 1, 2, 7, 12, U // 2, U - 13, U - 2, U - 1]
    cnt = 0
    for _ in range(400 if tier == "quick" else 4000):
        def coord():
            r = rnd.random()
            if r < 0.5:
                return rnd.randint(0, n_small)
            if r < 0.8:
                return rnd.choice(edge)
            return rnd.randint(0, U - 1)
        v = [coord() for _ in range(10)]
        ops.append("rect," + ",".join(map(str, v)))
        if len(ops) == 50:
            lines.append(pure_line(f"r{cnt}", ops))
            cnt += 1
            ops = []
    if ops:
        lines.append(pure_line(f"r{cnt}", ops))
    # exhaustive small pairs individually (all fields 0..=2: 6561 pairs) so the pixel oracle sees them
    ops = []
    k = 0
    rng = range(0, 3)
    for ax in rng:
        for ay in rng:
            for aw in rng:
                for ah in rng:
                    for bx in rng:
                        for by in rng:
                            for bw in rng:
                                for bh in rng:
                                    ops.append(f"rect,{ax},{ay},{aw},{ah},{bx},{by},{bw},{bh},{min(ax,bx)},{min(ay,by)}")
                                    if len(ops) == 200:
                                        lines.append(pure_line(f"g{k}", ops))
                                        k += 1
                                        ops = []
    if ops:
        lines.append(pure_line(f"g{k}", ops))
    lines.append(pure_line("grid", [f"rectgrid,{5 if tier == 'quick' else 8}"]))
    return {"v3": lines, "stats": {"rect_lines": len(lines), "grid_n": 5 if tier == "quick" else 8}}


def gen_c14(tier, seed):
    rnd = random.Random(seed * 7919 + 14)
    lines = []
    for d in ["bytes", "enc", "mask", "raw", "rgb565", "rgb555"]:
        lines.append(pure_line(f"c14-{d}", [f"color,{d}"]))
    if tier == "quick":
        for k in range(4):
            lines.append(pure_line(f"c14-rgb888-{k}", [f"color,rgb888,61,{rnd.randint(0, 60)}"]))
    else:
        # all 2^24 values, in 16 interleaved shards
        for k in range(16):
            lines.append(pure_line(f"c14-rgb888-{k}", [f"color,rgb888,16,{k}"]))
    # individual boundary values around the brightness threshold and the palette
    ops = []
    for (r, g, b) in [(0, 0, 0), (255, 255, 255), (127, 128, 127), (128, 128, 127), (128, 127, 127), (255, 128, 0), (254, 128, 1),
                      (0, 0, 1), (255, 255, 254), (200, 100, 82), (200, 100, 83)] + [(rnd.randint(0, 255), rnd.randint(0, 255), rnd.randint(0, 255)) for _ in range(40)]:
        ops.append(f"color,rgbone,888,{r},{g},{b}")
    for i in range(0, len(ops), 10):
        lines.append(pure_line(f"c14-one888-{i}", ops[i:i + 10]))
    return {"v3": lines, "stats": {"lines": len(lines), "rgb888": "stride 61 x4 offsets" if tier == "quick" else "all 2^24 values"}}


ALIASES = {  # panel -> (kind, number of colours)
    "epd1in02": ("bw", 2), "epd1in54": ("bw", 2), "epd1in54_v2": ("bw", 2), "epd1in54b": ("bw", 2), "epd1in54c": ("bw", 2),
    "epd2in13_v2": ("bw", 2), "epd2in13b_v4": ("tri", 3), "epd2in13bc": ("tri", 3), "epd2in66b": ("tri", 3), "epd2in7": ("bw", 2),
    "epd2in7_v2": ("bw", 2), "epd2in7b": ("bw", 2), "epd2in9": ("bw", 2), "epd2in9_v2": ("bw", 2), "epd2in9b_v4": ("tri", 3),
    "epd2in9bc": ("bw", 2), "epd2in9d": ("bw", 2), "epd3in7": ("bw", 2), "epd4in2": ("bw", 2), "epd5in65f": ("oct", 8),
    "epd5in83_v2": ("bw", 2), "epd5in83b_v2": ("tri", 3), "epd7in3f": ("oct", 8), "epd7in5": ("bw", 2), "epd7in5_hd": ("bw", 2),
    "epd7in5_v2": ("bw", 2), "epd7in5b_v2": ("tri", 3),
}
NCOL = {"bw": 2, "tri": 3, "oct": 8}


def gen_c03(tier, seed):
    rnd = random.Random(seed * 7919 + 3)
    lines = []
    n = 0
    if tier == "quick":
        targets = ["epd1in02", "epd2in13b_v4", "epd5in65f"]
    else:
        targets = list(ALIASES)
    for t in targets:
        kind, ncol = ALIASES[t]
        cols = list(range(ncol))
        if tier == "quick" and ncol > 3:
            cols = rnd.sample(cols, 3)
        for rot in (0, 90, 180, 270):
            for c in cols:
                lines.append(pure_line(f"c03-a{n}", [f"setpx,{t},{rot},{c},{rnd.randint(1, 10**6)},grid"]))
                n += 1
            lines.append(pure_line(f"c03-x{n}", [f"setpx,{t},{rot},{rnd.randrange(ncol)},{rnd.randint(1, 10**6)},ext"]))
            n += 1
    # run-time sized buffers: every geometry x colour type x rotation
    gmax = 16 if tier == "quick" else 40
    ops = []
    for w in range(1, gmax + 1):
        for h in range(1, gmax + 1):
            for kind in ("bw", "tri", "oct"):
                for rot in (0, 90, 180, 270):
                    if tier != "quick" and max(w, h) > 16 and rnd.random() < 0.5:
                        continue
                    ops.append(f"setpx,var:{w}:{h}:{kind}:{rnd.randint(0, 1)}:{rnd.randint(0, 3)},{rot},{rnd.randrange(NCOL[kind])},{rnd.randint(1, 10**6)},grid")
    for i in range(0, len(ops), 40):
        lines.append(pure_line(f"c03-v{i}", ops[i:i + 40]))
    ops = []
    for (w, h) in [(1, 1), (7, 3), (8, 8), (9, 2), (13, 5), (16, 16), (33, 9)]:
        for kind in ("bw", "tri", "oct"):
            for rot in (0, 90, 180, 270):
                ops.append(f"setpx,var:{w}:{h}:{kind}:{rnd.randint(0, 1)}:2,{rot},{rnd.randrange(NCOL[kind])},{rnd.randint(1, 10**6)},ext")
    for i in range(0, len(ops), 12):
        lines.append(pure_line(f"c03-e{i}", ops[i:i + 12]))
    return {"v3": lines, "stats": {"alias_targets": targets, "var_geometries_max": gmax, "batches": n + len(ops)}}


def gen_c13(tier, seed):
    rnd = random.Random(seed * 7919 + 13)
    lines = [pure_line("c13-alias", ["alias"])]
    gmax = 64
    ops = []

    def lb(w, bpp):
        return (w * bpp + 7) // 8
    for w in range(0, gmax + 1):
        for h in range(0, gmax + 1):
            if tier == "quick" and (w > 20 and h > 20) and rnd.random() < 0.8:
                continue
            for kind, bpp, planes in (("bw", 1, 1), ("tri", 1, 2), ("oct", 4, 1)):
                req = planes * h * lb(w, bpp)
                acc = h * lb(w, bpp * planes)
                for ln in sorted({max(req - 1, 0), req, req + 1, 0, max(acc - 1, 0), acc}):
                    ops.append(f"vardisp,{w},{h},{kind},{ln}")
    for i in range(0, len(ops), 400):
        lines.append(pure_line(f"c13-v{i}", ops[i:i + 400]))
    g = 20 if tier == "quick" else 64
    lines.append(pure_line("c13-grid", [f"vargrid,{g},{g}"]))
    b = 512 if tier == "quick" else 2048
    lines.append(pure_line("c13-buflen", [f"buflen,{b},{b}"]))
    return {"v3": lines, "stats": {"vardisp_ops": len(ops), "vargrid": g, "buflen_grid": b}}



import panels as PN


def alphabet(p, rnd, small=False):
    """protocol-respecting units of the panel's API (each a list of op strings) with canonical
    and boundary arguments; only implemented entry points"""
    n = p.frame()
    nb = p.n
    A = []
    def add(*ops):
        A.append(list(ops))
    add("disp")
    add("clear")
    add("bg,0")
    add(f"bg,{p.colors - 1}")
    add("wait")
    add(f"upd,pos:{n}")
    add(f"updisp,r:{rnd.randint(1, 999)}:{n}")
    add("sleep", "wake")
    add("wake")
    if p.has("lut"):
        add("lut,full")
        add("lut,quick")
        add("lut,none")
    wins = PN.windows(p, rnd, n_random=1, small=True)
    pick = [wins[0], wins[3 % len(wins)], wins[-1]] if not small else [wins[3 % len(wins)]]
    if p.has("part"):
        for (x, y, w, h) in pick:
            add(f"part,r:{rnd.randint(1, 999)}:{w // 8 * h},{x},{y},{w},{h}")
    if p.has("old") and p.has("newf"):
        if p.has("dispnew"):
            add(f"old,pos:{nb}", f"newf,r:5:{nb}", "dispnew")
        else:
            add(f"old,pos:{nb}", f"newf,r:5:{nb}", "disp")
    if p.has("updispnew"):
        add(f"old,pos:{nb}", f"updispnew,r:6:{nb}")
    if p.has("pold") and p.has("pnew"):
        for (x, y, w, h) in pick[:2]:
            add(f"pold,pos:{w // 8 * h},{x},{y},{w},{h}", f"pnew,r:8:{w // 8 * h},{x},{y},{w},{h}", "disp")
    if p.has("pclear"):
        (x, y, w, h) = pick[0]
        add(f"pclear,{x},{y},{w},{h}")
    if p.has("color"):
        add(f"color,pos:{nb},r:4:{nb}")
        add(f"achro,r:2:{nb}", f"chro,pos:{nb}")
        # (wave 15) one plane alone, right after a refresh: "chromatic-only" / "black-only" updates
        add("disp", f"chro,r:7:{nb}")
        add("disp", f"achro,r:8:{nb}")
    if p.has("base"):
        add(f"base,pos:{nb}")
    if p.has("refresh"):
        add("refresh,quick")
        add("refresh,full")
    if p.has("border"):
        add("border,0")
        add("border,2")
    if p.has("part2"):
        (x, y, w, h) = pick[0]
        add(f"part2,r:9:{2 * (w // 8 * h)},{x},{y},{w},{h}")
    if p.has("dpart"):
        (x, y, w, h) = pick[0]
        add(f"dpart,{x},{y},{w},{h}")
    if p.has("pachro") and p.has("pchro"):
        (x, y, w, h) = pick[0]
        add(f"pachro,r:3:{w // 8 * h},{x},{y},{w},{h}", f"pchro,pos:{w // 8 * h},{x},{y},{w},{h}")
    if p.has("basedisp"):
        add(f"basedisp,pos:{nb},-")
        add(f"basedisp,pos:{nb},r:2:{nb}")
    if p.has("disppart"):
        add("disppart")
    if p.has("7block"):
        add("7block")
    return A


def sched_for(rnd, n=12, hi=3):
    return ",".join(str(rnd.randint(0, hi)) for _ in range(n))


def each_panel(feat="v3"):
    return list(PN.table(feat).values())


def whole_panel_partials(p, rnd):
    """partial updates whose window is the WHOLE panel and one that starts at the left edge: the
    windows a driver may confuse with 'full frame' (cached full-window flags) and the ones drivers
    with coarse X encodings can actually address"""
    W8 = p.w8
    out = []
    for op in ("part", "pold", "part2", "pachro"):
        if p.has(op):
            out.append([f"{op},r:{rnd.randint(1, 999)}:{W8 // 8 * p.h},0,0,{W8},{p.h}"])
            out.append([f"{op},r:{rnd.randint(1, 999)}:{8 * 16},0,0,64,16"])
            # (wave 15) windows whose encoded END bytes alias the full window's in the low byte (a cache
            # keyed on truncated coordinates confuses them with the full frame): rows 0 .. (H-1) % 256
            if p.h > 256:
                ha = (p.h - 1) % 256 + 1
                out.append([f"{op},r:{rnd.randint(1, 999)}:{W8 // 8 * ha},0,0,{W8},{ha}"])
                if W8 > 8:
                    out.append([f"{op},r:{rnd.randint(1, 999)}:{(W8 - 8) // 8 * (ha - 1)},0,0,{W8 - 8},{ha - 1}"])
            break
    return out


def gen_histories(tier, seed, tag, probe=True, scribble_twins=False, maxlen=None):
    """all histories of length <= 2 (quick) / <= 3..4 sampled (thorough) over the alphabet,
    followed by a probe full-frame update with a position-coded image and a display"""
    rnd = random.Random(seed * 7919 + sum(map(ord, tag)))
    lines = []
    stats = {"histories": 0, "len": {}}
    for p in each_panel():
        big = p.n > 20000
        A = alphabet(p, rnd, small=big) + whole_panel_partials(p, rnd)
        hs = [[]] + [[u] for u in A]
        pairs = [[u, v] for u in A for v in A]
        if tier == "quick":
            # every ordered pair on the small and medium panels; a sample on the big ones
            k = 120 if big else len(pairs)
            hs += pairs if len(pairs) <= k else rnd.sample(pairs, k)
            if len(pairs) > k:
                # (wave 15) never sampled away: a buffer-carrying unit followed by a one-plane update that
                # comes right after a refresh (a driver that "re-syncs" the other plane from a retained
                # pointer does so exactly there)
                hs += [[u, v] for u in A for v in A if len(v) == 2 and v[0] == "disp" and any(":" in o for o in u)]
            # length 3 with a mode-setting first unit (quick LUT / quick refresh): the modes that
            # steer the update paths
            modes = [u for u in A if u[0] in ("lut,quick", "refresh,quick")]
            for m in modes:
                trip = [[m, u, v] for u in A for v in A]
                kk = 60 if big else 200
                hs += trip if len(trip) <= kk else rnd.sample(trip, kk)
        else:
            k2 = 150 if big else len(pairs)
            hs += pairs if len(pairs) <= k2 else rnd.sample(pairs, k2)
            k3 = 60 if big else 300
            for _ in range(k3):
                hs.append([rnd.choice(A) for _ in range(rnd.choice([3, 3, 4]))])
        if maxlen is not None:
            hs = [h for h in hs if len(h) <= maxlen]
        for i, h in enumerate(hs):
            ops = ["new"] + [o for u in h for o in u]
            if probe:
                ops += [f"upd,pos:{p.frame()}", "disp"]
            sid = f"{tag}-{p.name}-{i}"
            if scribble_twins:
                lines.append(PN.line(sid + "@0", p, ops, sched=sched_for(rnd), scribble=0))
                lines.append(PN.line(sid + "@1", p, ops, sched=lines[-1].split("sched=")[1].split()[0], scribble=1))
            else:
                lines.append(PN.line(sid, p, ops, sched=sched_for(rnd)))
            stats["histories"] += 1
            stats["len"][len(h)] = stats["len"].get(len(h), 0) + 1
        if tag == "c02" and probe:
            # setting twins: the same probe after the history's SETTING calls only (background, LUT,
            # refresh mode, border) — what the update must leave in every plane it writes
            keys = {settings_key(l.split(" ops=", 1)[1].split(";")) for l in lines if f"panel={p.name} " in l}
            for j, key in enumerate(sorted(keys)):
                lines.append(PN.line(f"c02tw-{p.name}-{j}", p, ["new"] + list(key) + [f"upd,pos:{p.frame()}", "disp"], sched=sched_for(rnd)))
    return {"v3": lines, "stats": stats}


SETTING_OPS = ("bg", "lut", "refresh", "border")


def settings_key(ops):
    return tuple(o for o in ops if o.split(",")[0] in SETTING_OPS)


def post_c02(outputs, all_lines):
    """every plane that the probe update writes after the history's setting calls alone must hold
    the same bytes after the whole history (a plane the update is supposed to fill but skips, or
    fills differently, because of state an earlier call left behind)"""
    notes = {}
    for feat, o in outputs:
        if o.startswith("O ") and " C02 " in o:
            f = o.split(" ")
            d = dict(x.split("=", 1) for x in f[3:] if "=" in x)
            notes[f[1]] = d
    twins = {}
    for (feat, sid), line in all_lines.items():
        if sid.startswith("c02tw-") or sid.startswith("wtw-"):
            mp = re.search(r"panel=(\S+)", line)
            ops = line.split(" ops=", 1)[1].split(";")
            twins[(mp.group(1), settings_key(ops))] = sid
    fails, n = [], 0
    for (feat, sid), line in all_lines.items():
        if sid.startswith("c02tw-") or sid.startswith("wtw-") or sid not in notes or "panel=epd12in48b_v2" in line:
            continue
        mp = re.search(r"panel=(\S+)", line)
        ops = line.split(" ops=", 1)[1].split(";")
        # protocol: a history that ends asleep or whose probe did not run is not judged here
        tw = twins.get((mp.group(1), settings_key(ops)))
        if tw is None or tw not in notes:
            continue
        a, b = notes[sid], notes[tw]
        if not b.get("w") or not a.get("w"):
            continue          # the probe did not run (the history ended in a panic / unsupported call)
        n += 1
        for pl in b["w"].split(","):
            if a.get("p" + pl) != b.get("p" + pl):
                fails.append((feat, sid, f"site={mp.group(1)}/upd reason=plane-differs-from-fresh-update got=plane{pl}:{a.get('p' + pl)} want=plane{pl}:{b.get('p' + pl)}"))
    return fails, n


BIG_UNITS = ["d1p,640,488,16,8,r:3:4", "d1p,8,8,64,2,r:1:16", "d2p,648,0,656,492,r:2:82", "d2p,0,490,1304,4,r:5:652",
             "refreshp,640,480,16,24", "brefreshp,0,0,64,8;busy;busy", "mode,1031", "lut,c,r:1:10", "lut,bd,z:0", "poweroff",
             "refresh", "hibernate;reset;init,0000", "reset;init,0010", "d1,r:9:163", "d2,r:9:815", "status"]
BIG_HDR = "panel=epd12in48b_v2 delay=none raise=02,04,12 busylvl=0 fault=- scribble=0"


def big_c02_lines(tier, seed):
    """12.48in: histories (every unit, ordered pairs of units) followed by a full-frame write of
    one row / k rows / (a few) whole frames on either plane, judged on the four simulated chips"""
    rnd = random.Random(seed * 7919 + 202)
    W8 = 163
    hs = [[u] for u in BIG_UNITS] + [[u, v] for u in BIG_UNITS for v in BIG_UNITS]
    if tier == "thorough":
        hs += [[rnd.choice(BIG_UNITS) for _ in range(rnd.randint(3, 5))] for _ in range(300)]
    lines = []
    for k, h in enumerate(hs):
        n = [W8, W8 * 5, W8 * 8, W8 * 100][k % 4] if k % 37 else W8 * 984
        pl = "d1" if k % 2 == 0 else "d2"
        ops = ["reset", f"init,{rnd.choice(['0000', '0101', '1031', '0120'])}"] + [o for u in h for o in u.split(";")] + [f"{pl},r:{k + 1}:{n}"]
        lines.append(f"id=c02-big-{k} {BIG_HDR} sched={sched_for(rnd, 12, 2)} ops=" + ";".join(ops))
    return lines


def gen_c02(tier, seed):
    g = gen_histories(tier, seed, "c02")
    big = big_c02_lines(tier, seed)
    g["v3"] = g["v3"] + big
    g["stats"]["big_panel_lines"] = len(big)
    return g


FIFO_SAFE = {"reset", "init", "mode", "d1", "d2", "d1p", "d2p", "lut", "busy", "status"}


def fifo_twins(lines, every=1):
    """twins of 12.48in scenario lines run on a BUFFERED bus (`bus=fifo`: `SpiBus::write` returns
    before the bytes are on the wire, as embedded-hal 1.0 allows; they reach the chips at the next
    `flush`, with the pin levels of that moment).  A driver that flushes before it moves a chip
    select or D/C line produces the same trace on both buses.  Only calls that do not poll BUSY
    (the driver polls right after a command without flushing — outside these properties)."""
    out = []
    n = 0
    for l in lines:
        if "panel=epd12in48b_v2" not in l or "fault=-" not in l:
            continue
        ops = l.split(" ops=", 1)[1].split(";")
        if all(o.split(",")[0] in FIFO_SAFE for o in ops):
            if n % every == 0:
                out.append(re.sub(r"^id=(\S+)", r"id=\1-fifo", l).replace(" ops=", " bus=fifo ops=", 1))
            n += 1
    return out


def big_lines(prefix, tier, seed, kinds):
    """scenario lines of the 12.48in driver taken from C15's generator (kinds: letters of the id
    classes f = full frames, w = grid/seam windows, q = sub-display rectangles, p/m = public calls)"""
    pat = re.compile(r"id=c15-([a-z])")
    out = []
    for l in gen_c15_core(tier, seed)["v3"]:
        m = pat.match(l)
        if m and m.group(1) in kinds:
            out.append(l.replace("id=c15-", f"id={prefix}-big-", 1))
    return out + fifo_twins(out, every=2 if tier == "quick" else 1)


def big_c09_lines(tier, seed):
    """protocol-respecting call sequences of the 12.48in driver with refreshes at every position"""
    rnd = random.Random(seed * 7919 + 909)
    BIG = "panel=epd12in48b_v2 delay=none raise=02,04,12 busylvl=0 fault=- scribble=0"
    calls = ["d1,r:1:163", "d2,r:2:326", "d1p,640,488,16,8,r:3:4", "refresh", "brefresh;busy", "refreshp,640,480,16,24", "brefreshp,0,0,64,8;busy",
             "poweroff", "mode,0101", "lut,c,r:1:10", "status", "hibernate;reset;init,0000", "reset;init,0010"]
    lines = []
    k = 0
    for a in calls:
        for b in calls:
            ops = ["reset", "init,0000"] + a.split(";") + b.split(";") + ["refresh"]
            lines.append(f"id=c09-big-{k} {BIG} sched={sched_for(rnd, 10, 2)} ops=" + ";".join(ops))
            k += 1
    for _ in range(40 if tier == "quick" else 400):
        seq = [o for c in [rnd.choice(calls) for _ in range(rnd.randint(3, 6))] for o in c.split(";")]
        lines.append(f"id=c09-big-{k} {BIG} sched={sched_for(rnd, 16, 2)} ops=" + ";".join(["reset", "init,0000"] + seq + ["refresh"]))
        k += 1
    return lines


def gen_c09(tier, seed):
    out = gen_histories(tier, seed, "c09")
    big = big_c09_lines(tier, seed)
    out["v3"] = out["v3"] + big
    out.setdefault("stats", {})["big_panel_lines"] = len(big)
    return out


def gen_c12(tier, seed):
    return gen_histories(tier, seed, "c12", scribble_twins=True, maxlen=2 if tier == "quick" else 3)


def gen_c01(tier, seed):
    rnd = random.Random(seed * 7919 + 1)
    out = {"v3": [], "v2": [], "stats": {"entry_points": 0}}
    for feat in ("v3", "v2"):
        for p in each_panel(feat):
            if feat == "v2" and p.name != "epd2in13_v2":
                continue
            n, nb = p.frame(), p.n
            bufs = lambda m: [f"z:{m}", f"pos:{m}", f"r:{rnd.randint(1, 9999)}:{m}", f"c:ff:{m}"]
            extra = [] if tier == "quick" else [f"bit:0:{n}", f"bit:{8 * n - 1}:{n}", f"bit:{8 * (n // 2) - 1}:{n}", f"bit:{8 * (n // 2)}:{n}", f"r:{rnd.randint(1, 9999)}:{n}"]
            k = 0
            def emit(ops):
                nonlocal k
                out[feat].append(PN.line(f"c01-{feat}-{p.name}-{k}", p, ["new"] + ops, sched=sched_for(rnd)))
                k += 1
                out["stats"]["entry_points"] += 1
            for b in bufs(n) + extra:
                emit([f"upd,{b}", "disp"])
                emit([f"updisp,{b}"])
            if p.has("color"):
                for b in bufs(nb):
                    emit([f"color,{b},r:{rnd.randint(1, 999)}:{nb}", "disp"])
                    emit([f"achro,{b}", f"chro,pos:{nb}", "disp"])
                    emit([f"chro,{b}", "disp"])
            if p.has("old") and p.has("newf"):
                for b in bufs(nb):
                    emit([f"old,{b}", f"newf,r:3:{nb}", "dispnew" if p.has("dispnew") else "disp"])
                    emit([f"old,r:3:{nb}", f"newf,{b}", "dispnew" if p.has("dispnew") else "disp"])
            if p.has("updispnew"):
                emit([f"old,pos:{nb}", f"updispnew,r:4:{nb}"])
            # the update after every unit of the alphabet, and after (unit; state-setting unit):
            # delivery must not depend on a mode flag an earlier call left behind
            if feat == "v3":
                A = alphabet(p, rnd, small=True)
                setters = [u for u in A if u[0].split(",")[0] in ("lut", "refresh", "bg", "border", "wake")]
                big = p.n > 20000
                # (wave 13) ... and after a partial update of the WHOLE panel / at the left edge: the
                # windows a cached "window is the full panel" flag confuses with a full frame
                for u in whole_panel_partials(p, rnd):
                    emit(u + [f"upd,pos:{n}", "disp"])
                    emit(u + [f"updisp,r:{rnd.randint(1, 999)}:{n}"])
                for u in A:
                    emit(u + [f"upd,pos:{n}", "disp"])
                    for v in (setters if not big else setters[:2]):
                        emit(u + v + [f"upd,r:{rnd.randint(1, 999)}:{n}", "disp"])
            if p.has("base"):
                for b in bufs(nb):
                    emit([f"base,{b}", "disp"])
                emit(["refresh,quick", f"updisp,pos:{nb}"])
                emit(["refresh,quick", f"upd,r:2:{nb}", "disp"])
    # the 12.48in driver: full frames (whole buffer / one row / k rows) on both planes, every configuration
    big = big_lines("c01", tier, seed, "f")
    out["v3"] = out["v3"] + big
    out.setdefault("stats", {})["big_panel_lines"] = len(big)
    return out


def gen_c06(tier, seed):
    rnd = random.Random(seed * 7919 + 6)
    lines = []
    stats = {"windows": 0}
    part_ops = ["part", "pold", "pnew", "pclear", "part2", "pachro", "pchro"]
    for p in each_panel():
        ents = [o for o in part_ops if p.has(o)]
        if not ents:
            continue
        big = p.n > 20000
        nrand = (4 if big else 20) if tier == "quick" else (40 if big else 300)
        wins = PN.windows(p, rnd, n_random=nrand, small=big and tier == "quick")
        if not big and tier != "quick" and p.w <= 152:
            # all aligned x,w and boundary y,h
            for w in range(8, p.w8 + 1, 8):
                for x in range(0, p.w8 - w + 1, 8):
                    for (y, h) in [(0, 1), (0, p.h), (p.h - 1, 1), (3, 5)]:
                        if (x, y, w, h) not in wins:
                            wins.append((x, y, w, h))
        pre = [f"upd,r:77:{p.frame()}"]
        if p.has("chro"):
            pre.append(f"chro,r:78:{p.n}")
        if p.has("old"):
            pre.append(f"old,r:79:{p.n}")
        for i, (x, y, w, h) in enumerate(wins):
            m = w // 8 * h
            for e in ents:
                sid = f"c06-{p.name}-{e}-{i}"
                if e == "part":
                    ops = [f"part,pos:{m},{x},{y},{w},{h}"]
                elif e == "pold":
                    ops = [f"pold,pos:{m},{x},{y},{w},{h}"]
                elif e == "pnew":
                    # documented pair: old data first, then the new data of the same window
                    ops = [f"pold,r:5:{m},{x},{y},{w},{h}", f"pnew,pos:{m},{x},{y},{w},{h}"]
                elif e == "pclear":
                    ops = [f"pclear,{x},{y},{w},{h}"]
                elif e == "part2":
                    ops = [f"part2,pos:{2 * m},{x},{y},{w},{h}"]
                elif e == "pachro":
                    ops = [f"pachro,pos:{m},{x},{y},{w},{h}"]
                else:
                    ops = [f"pchro,pos:{m},{x},{y},{w},{h}"]
                lines.append(PN.line(sid, p, ["new"] + pre + ops, sched=sched_for(rnd)))
                stats["windows"] += 1
                # the same entry point after histories that move the driver's mode flags: an
                # earlier partial update, sleep + wake_up, a clear, a LUT selection
                if i < (3 if tier == "quick" else 8):
                    hists = [ops + ["sleep", "wake"], ["sleep", "wake"], ["clear"], ops + ["wake"]]
                    if p.has("lut"):
                        hists += [ops + ["lut,full"], ["lut,quick"]]
                    for hi, hpre in enumerate(hists):
                        lines.append(PN.line(f"{sid}-h{hi}", p, ["new"] + pre + hpre + ops, sched=sched_for(rnd)))
                        stats["windows"] += 1
        # (wave 14) two partial updates back to back, of DIFFERENT shapes: a driver that skips "redundant"
        # window registers (full-width stripe, whole panel, same column range) inherits them from the
        # previous window
        W8, H = p.w8, p.h
        shapes = [(8 * (W8 // 32), H // 3, 8 * max(1, W8 // 16), max(1, H // 4)),   # narrow, interior
                  (0, H // 2, W8, max(1, H // 5)),                                   # full-width stripe
                  (8 * (W8 // 16), 0, 8 * max(1, W8 // 32), H),                      # full-height stripe
                  (0, 0, W8, H),                                                     # whole panel
                  (0, 1, 8, 2), (W8 - 8, H - 2, 8, 2)]                               # corners
        def mk(e, x, y, w, h, tag):
            m = w // 8 * h
            if e == "pnew":
                return [f"pold,r:5:{m},{x},{y},{w},{h}", f"pnew,{tag}:{m},{x},{y},{w},{h}"]
            if e == "pclear":
                return [f"pclear,{x},{y},{w},{h}"]
            if e == "part2":
                return [f"part2,{tag}:{2 * m},{x},{y},{w},{h}"]
            return [f"{e},{tag}:{m},{x},{y},{w},{h}"]
        pairs = [(a, b) for a in shapes for b in shapes if a != b]
        if tier == "quick" and big:
            pairs = [(a, b) for (a, b) in pairs if shapes[0] in (a, b)]
        for e in ents:
            for j, (a, b) in enumerate(pairs):
                lines.append(PN.line(f"c06-{p.name}-{e}-bb{j}", p, ["new"] + pre + mk(e, *a, "r:3") + mk(e, *b, "pos"), sched=sched_for(rnd)))
                stats["windows"] += 1
    # the 12.48in driver's partial writes: grid / seam / edge windows and the exact sub-display rectangles
    big = big_lines("c06", tier, seed, "wq")
    lines += big
    stats["big_panel_lines"] = len(big)
    return {"v3": lines, "stats": stats}


def gen_c07(tier, seed):
    rnd = random.Random(seed * 7919 + 7)
    lines = []
    for p in each_panel():
        A = alphabet(p, rnd, small=True)
        parts = [u for u in A if u[0].split(",")[0] in ("part", "pold", "part2", "pachro")]
        for c in range(p.colors):
            hist = [[], ["clear"], ["sleep", "wake"]] + parts[:1]
            # (wave 15) a narrow partial update followed by a whole-panel / left-edge / aliasing one
            hist += [parts[0] + w for w in whole_panel_partials(p, rnd)] if parts else []
            # every mode-setting call of the driver (a clear_frame that looks at the stored mode),
            # and an update + display before the clear
            hist += [u for u in A if u[0] in ("lut,quick", "lut,full", "refresh,quick")]
            hist += [[f"updisp,r:{rnd.randint(1, 999)}:{p.frame()}"]]
            if tier != "quick":
                hist += [rnd.choice(A) for _ in range(6)]
            for i, h in enumerate(hist):
                lines.append(PN.line(f"c07-{p.name}-{c}-{i}", p, ["new"] + h + [f"bg,{c}", "clear"], sched=sched_for(rnd)))
    return {"v3": lines, "stats": {"lines": len(lines)}}


def gen_c08(tier, seed):
    rnd = random.Random(seed * 7919 + 8)
    lines = []
    for p in each_panel():
        big = p.n > 20000
        A = alphabet(p, rnd, small=True)
        A1 = [[]] + A
        k = 0
        combos = [(a, b) for a in A1 for b in A1]
        lim = (25 if big else 60) if tier == "quick" else (80 if big else 400)
        if len(combos) > lim:
            combos = rnd.sample(combos, lim)
        for (pre, suf) in combos:
            ops = ["new"] + pre + ["sleep", "wake"] + suf
            lines.append(PN.line(f"c08-{p.name}-{k}", p, ops, sched=sched_for(rnd)))
            k += 1
        lines.append(PN.line(f"c08-{p.name}-ww", p, ["new", "wake", "wake", f"upd,pos:{p.frame()}", "disp"], sched=sched_for(rnd)))
        lines.append(PN.line(f"c08-{p.name}-cyc", p, ["new"] + ["sleep", "wake"] * 3 + [f"upd,pos:{p.frame()}", "disp"], sched=sched_for(rnd)))
    # the 12.48in driver: sleep = hibernate, wake-up = reset + init
    cfgs = ["0000", "0101", "1031", "0121", "1110"]
    j = 0
    bigl = []
    for pre in [""] + BIG_UNITS:
        for suf in ([""] + BIG_UNITS if tier == "thorough" else [rnd.choice([""] + BIG_UNITS), "d1p,8,8,64,2,r:1:16"]):
            c1, c2 = rnd.choice(cfgs), rnd.choice(cfgs)
            ops = ["reset", f"init,{c1}"] + [o for o in pre.split(";") if o] + ["hibernate", "reset", f"init,{c2 if j % 2 else c1}"] + \
                  [o for o in suf.split(";") if o] + [f"{'d1' if j % 2 else 'd2'},r:{j + 1}:{163 * (1 + j % 7)}", "refresh"]
            bigl.append(f"id=c08-big-{j} {BIG_HDR} sched={sched_for(rnd, 12, 2)} ops=" + ";".join(ops)); j += 1
    for c in cfgs:
        bigl.append(f"id=c08-big-cyc-{c} {BIG_HDR} sched={sched_for(rnd, 12, 2)} ops=" + ";".join(["reset", f"init,{c}"] + ["hibernate", "reset", f"init,{c}"] * 3 + ["d1,r:3:815", "refresh"]))
        bigl.append(f"id=c08-big-ww-{c} {BIG_HDR} sched={sched_for(rnd, 12, 2)} ops=" + ";".join(["reset", f"init,{c}", "refresh", "reset", f"init,{c}", "reset", f"init,{cfgs[0]}", "d2,r:3:326", "refresh"]))
    lines += bigl
    return {"v3": lines, "stats": {"lines": len(lines), "big_panel_lines": len(bigl)}}


def gen_c17(tier, seed):
    rnd = random.Random(seed * 7919 + 17)
    out = {"v3": [], "v2": [], "alt": [], "stats": {}}
    alpha = [["lut,full"], ["lut,quick"], ["lut,none"], ["sleep", "wake"], ["disp"]]
    import itertools
    for feat in ("v3", "v2", "alt"):
        for p in each_panel(feat):
            if p.name not in PN.LUT_PANELS:
                continue
            if feat == "v2" and p.name != "epd2in13_v2":
                continue
            if feat == "alt" and p.name not in ("epd1in54", "epd2in9"):
                continue
            L = 3 if tier == "quick" else 4
            k = 0
            for n in range(1, L + 1):
                seqs = list(itertools.product(alpha, repeat=n))
                # (all 125 triples in quick too: "select A, select B, reload" needs exactly one of them)
                if n == 4:
                    seqs = rnd.sample(seqs, 200)
                for sq in seqs:
                    ops = ["new"] + [o for u in sq for o in u]
                    out[feat].append(PN.line(f"c17-{feat}-{p.name}-{k}", p, ops, sched=sched_for(rnd)))
                    k += 1
            if p.name == "epd2in13_v2":
                for sq in (["refresh,quick"], ["refresh,quick", "lut,none"], ["refresh,quick", "sleep", "wake"], ["refresh,quick", "refresh,full", "lut,none"]):
                    out[feat].append(PN.line(f"c17-{feat}-{p.name}-r{k}", p, ["new"] + sq, sched=sched_for(rnd)))
                    k += 1
    return out


def all_ops_lines(tag, tier, seed, feats=("v3",), lengths=False):
    rnd = random.Random(seed * 7919 + sum(map(ord, tag)))
    out = {f: [] for f in feats}
    for feat in feats:
        for p in each_panel(feat):
            if feat == "v2" and p.name != "epd2in13_v2":
                continue
            if feat == "alt" and p.name not in ("epd1in54", "epd2in9"):
                continue
            A = alphabet(p, rnd, small=p.n > 20000)
            k = 0
            for u in A:
                out[feat].append(PN.line(f"{tag}-{feat}-{p.name}-{k}", p, ["new"] + u, sched=sched_for(rnd), delay=rnd.choice(["none", "0", "1", "250"])))
                k += 1
            # a longer mixed sequence
            for _ in range(2 if tier == "quick" else 8):
                seq = [o for u in rnd.sample(A, min(4, len(A))) for o in u]
                out[feat].append(PN.line(f"{tag}-{feat}-{p.name}-{k}", p, ["new"] + seq, sched=sched_for(rnd)))
                k += 1
            if lengths and feat == "v3":
                Ls = [0, 1, 4095, 4096, 4097, 8192, 8193] + ([] if tier == "quick" else [12288, 12289, 65536])
                for L in Ls:
                    for op in ("upd", "chro", "newf", "achro"):
                        if p.has(op):
                            out[feat].append(PN.line(f"{tag}-{feat}-{p.name}-{k}", p, ["new", f"{op},r:{rnd.randint(1,999)}:{L}"], sched=sched_for(rnd)))
                            k += 1
    out["stats"] = {"lines": sum(len(out[f]) for f in feats)}
    return out


def gen_c10(tier, seed):
    out = all_ops_lines("c10", tier, seed, lengths=True)
    # the 12.48in driver has its own transport (four chip selects, two D/C lines): every public call,
    # LUT tables of every length class incl. empty, windows on and off the seams
    big = [l.replace("id=c15-", "id=c10-big-") for l in gen_c15_core(tier, seed)["v3"]
           if re.match(r"id=c15-(p|m|q|r)", l) or re.match(r"id=c15-w\d\b", l) or re.match(r"id=c15-f[0-3]\b", l)]
    for which in ("c", "ww", "kw", "wk", "kk", "bd"):
        for n in (0, 1, 41, 42, 43, 59, 60, 61):
            big.append(f"id=c10-big-lut-{which}-{n} panel=epd12in48b_v2 delay=none sched=- raise=02,04,12 busylvl=0 fault=- scribble=0 "
                       f"ops=reset;init,0000;lut,{which},r:3:{n};busy;lut,{which},z:{n}")
    big += fifo_twins(big, every=2 if tier == "quick" else 1)
    out["v3"] = out["v3"] + big
    out.setdefault("stats", {})["big_panel_lines"] = len(big)
    return out


def gen_c18(tier, seed):
    out = all_ops_lines("c18", tier, seed, feats=("v3", "v2", "alt"))
    # (wave 14) every ordered pair of units: a block may be incomplete / a geometry value wrong only on
    # the path an earlier call selects (mode flags, partial-refresh flags, restore paths)
    rnd = random.Random(seed * 7919 + 1818)
    for feat in ("v3", "v2", "alt"):
        for p in each_panel(feat):
            if feat == "v2" and p.name != "epd2in13_v2":
                continue
            if feat == "alt" and p.name not in ("epd1in54", "epd2in9"):
                continue
            big = p.n > 20000
            A = alphabet(p, rnd, small=True) + (whole_panel_partials(p, rnd) if not big else [])
            pairs = [(a, b) for a in A for b in A]
            lim = (40 if big else len(pairs)) if tier == "quick" else len(pairs)
            if len(pairs) > lim:
                setters = [(a, b) for (a, b) in pairs if a[0].split(",")[0] in ("lut", "refresh", "part", "pold", "part2", "pachro")]
                pairs = rnd.sample(pairs, lim) + (setters if len(setters) <= 120 else rnd.sample(setters, 120))
            for j, (a, b) in enumerate(pairs):
                out[feat].append(PN.line(f"c18-{feat}-{p.name}-pp{j}", p, ["new"] + a + b, sched=sched_for(rnd)))
    # the 12.48in driver: every public call, LUT tables of every length class, windows, full frames, histories
    big = [l.replace("id=c10-big-", "id=c18-big-") for l in gen_c10(tier, seed)["v3"] if "id=c10-big-" in l and "bus=fifo" not in l]
    big += [l.replace("id=c02-big-", "id=c18-bigh-") for l in big_c02_lines(tier, seed)[:40]]
    out["v3"] = out["v3"] + big
    out.setdefault("stats", {})["big_panel_lines"] = len(big)
    return out


def gen_c11(tier, seed):
    rnd = random.Random(seed * 7919 + 11)
    out = {"v3": [], "v2": [], "stats": {}}
    for feat in ("v3", "v2"):
        for p in each_panel(feat):
            if feat == "v2" and p.name != "epd2in13_v2":
                continue
            k = 0
            # (wave 15: idle delays LONGER than the fixed reset timings too — 250 ms, 1 s)
            for delay in ("none", "0", "1", "250", "250000", "1000000"):
                for ops in (["new"], ["new", "wake"], ["new", "sleep", "wake"], ["new", "wake", "wake"], ["new", "clear", "wake"]):
                    out[feat].append(PN.line(f"c11-{feat}-{p.name}-{k}", p, ops, sched=sched_for(rnd), delay=delay))
                    k += 1
                # wake-up with every stored mode: the reset must not depend on the mode fields
                modes = []
                if p.has("lut"):
                    modes += ["lut,quick", "lut,full"]
                if p.has("refresh"):
                    modes += ["refresh,quick", "refresh,full"]
                for m in modes:
                    for ops in (["new", m, "wake"], ["new", m, "sleep", "wake"]):
                        out[feat].append(PN.line(f"c11-{feat}-{p.name}-{k}", p, ops, sched=sched_for(rnd), delay=delay))
                        k += 1
                nb = p.n
                if p.name == "epd2in9_v2":
                    out[feat].append(PN.line(f"c11-{feat}-{p.name}-{k}", p, ["new", f"old,pos:{nb}", f"newf,r:1:{nb}", "dispnew"], sched=sched_for(rnd), delay=delay)); k += 1
                    out[feat].append(PN.line(f"c11-{feat}-{p.name}-{k}", p, ["new", f"old,pos:{nb}", f"updispnew,r:1:{nb}"], sched=sched_for(rnd), delay=delay)); k += 1
                if p.name == "epd2in9d":
                    out[feat].append(PN.line(f"c11-{feat}-{p.name}-{k}", p, ["new", f"upd,pos:{nb}", "part,r:1:16,8,16,16,8", "part,r:2:16,8,16,16,8"], sched=sched_for(rnd), delay=delay, busylvl=1)); k += 1
                if p.name == "epd2in13_v2":
                    out[feat].append(PN.line(f"c11-{feat}-{p.name}-{k}", p, ["new", "refresh,quick", "refresh,full", "refresh,full"], sched=sched_for(rnd), delay=delay)); k += 1
    # the 12.48in driver's own `reset()` (two reset lines), alone, repeated, and after every kind of call
    BIG = "panel=epd12in48b_v2 delay=none sched=- raise=02,04,12 busylvl=0 fault=- scribble=0"
    seqs = [["reset"], ["reset", "reset"], ["reset", "init,0000", "reset", "init,0101"], ["reset", "init,0000", "hibernate", "reset", "init,0000"],
            ["reset", "init,0000", "d1,r:1:163", "refresh", "reset"], ["reset", "init,0000", "poweroff", "reset", "init,0000", "refresh"],
            ["reset", "init,0000", "status", "reset"], ["reset", "init,0000", "d1p,640,488,16,8,r:3:4", "reset", "init,0000"]]
    for j, ops in enumerate(seqs):
        out["v3"].append(f"id=c11-big-{j} {BIG} ops=" + ";".join(ops))
    return out


def gen_c05(tier, seed):
    rnd = random.Random(seed * 7919 + 5)
    lines = []
    stats = {"pairs": 0}
    import itertools
    for p in each_panel():
        big = p.n > 20000
        A = alphabet(p, rnd, small=True)
        pairs = [([], a, b) for a in A for b in A]
        lim = (60 if big else len(pairs)) if tier == "quick" else len(pairs)
        if len(pairs) > lim:
            pairs = rnd.sample(pairs, lim)
        # (wave 13) partial updates of the WHOLE panel / at the left edge next to every unit, never
        # sampled away: a "whole window" fast path may skip the wait the ordinary path performs
        for e in whole_panel_partials(p, rnd):
            pairs += [([], a, e) for a in A] + [([], e, a) for a in A]
        # the same pairs under every mode-setting prefix (quick LUT / quick refresh)
        modes = [u for u in A if u[0] in ("lut,quick", "refresh,quick")]
        for m in modes:
            mp = [(m, a, b) for a in A for b in A]
            ml = (40 if big else 150) if tier == "quick" else len(mp)
            pairs += mp if len(mp) <= ml else rnd.sample(mp, ml)
        durs = [0, 1, 3] if tier == "quick" else list(range(8))
        k = 0
        for (pre, a, b) in pairs:
            reps = 2 if tier == "quick" else 4
            for _ in range(reps):
                sched = ",".join(str(rnd.choice(durs)) for _ in range(14))
                delay = rnd.choice(["none", "0", "1", "250"])
                lines.append(PN.line(f"c05-{p.name}-{k}", p, ["new"] + pre + a + b, sched=sched, delay=delay))
                k += 1
            stats["pairs"] += 1
        # explicit wait after each busy-raising op
        for u in A:
            lines.append(PN.line(f"c05-{p.name}-w{k}", p, ["new"] + u + ["wait"], sched=",".join(str(rnd.choice(durs)) for _ in range(14)), delay=rnd.choice(["none", "0", "7"])))
            k += 1
    # the 12.48in driver: four BUSY pins.  Every ordered pair of calls x busy durations x which
    # controller is the slow one (`slow=k`: only that pin follows the episode; none: all four do)
    U = ["refresh", "brefresh", "refreshp,0,0,64,8", "refreshp,1240,980,64,4", "refreshp,640,480,16,24", "brefreshp,0,500,64,8",
         "poweroff", "hibernate;reset;init,0000", "d1,r:1:163", "d2p,8,8,64,2,r:1:16", "busy;busy;busy", "mode,0101", "status"]
    bigl = []
    j = 0
    durs = [0, 1, 2, 5] if tier == "quick" else list(range(8))
    for a in U:
        for b in U:
            for slow in ([None, j % 4] if tier == "quick" else [None, 0, 1, 2, 3]):
                sched = ",".join(str(rnd.choice(durs)) for _ in range(16))
                ops = ["reset", "init,0000"] + a.split(";") + b.split(";")
                bigl.append(f"id=c05-big-{j} {BIG_HDR} sched={sched}" + (f" slow={slow}" if slow is not None else "") + " ops=" + ";".join(ops))
                j += 1
    lines += bigl
    stats["big_panel_lines"] = len(bigl)
    return {"v3": lines, "stats": stats}


def transfer_ranges(trace_text):
    """per scenario id: list per op of [(dc, nbytes_per_transfer, count), ...] from a harness trace"""
    res = {}
    cur = None
    ops = []
    groups = []
    for l in trace_text.splitlines():
        if l.startswith("S "):
            cur = l[2:]
            ops = []
            groups = []
        elif l.startswith("W "):
            f = l.split(" ")
            for part in f[2].split(","):
                ln, cnt = part.split("*")
                groups.append((f[1], int(ln), int(cnt)))
        elif l.startswith("E "):
            ops.append(groups)
            groups = []
        elif l == "T":
            res[cur] = ops
    return res


def gen_c04(tier, seed, ctx=None):
    """fault at transfer index k of an operation, then the recovery suffix (wake_up, full-frame
    update, display); each with a fault-free twin.  The transfer counts come from a fault-free
    pre-pass through the real harness."""
    rnd = random.Random(seed * 7919 + 4)
    base = []
    for p in each_panel():
        A = alphabet(p, rnd, small=True)
        k = 0
        for u in [[]] + A:
            base.append((f"c04-{p.name}-{k}", p, ["new"] + u))
            k += 1
        # the same units under a non-default driver setting (a field the failed call may leave
        # changed): every other background colour, the quick refresh mode / waveform
        settings = [f"bg,{c}" for c in range(p.colors)]
        if p.has("refresh"):
            settings.append("refresh,quick")
        if p.has("lut"):
            settings.append("lut,quick")
        isset = lambda u: len(u) == 1 and u[0].split(",")[0] in ("bg", "refresh", "lut", "wait")
        units = [u for u in A if not isset(u)]
        if tier == "quick":
            settings = settings[:1] + settings[-2:] if len(settings) > 3 else settings
        for j, st in enumerate(dict.fromkeys(settings)):
            for u in units:
                base.append((f"c04-{p.name}-s{j}x{k}", p, ["new", st] + u))
                k += 1
    if ctx is None:
        return {"v3": [], "stats": {}}
    SCHED = "2,1,2,0,1,2,1,2,0,1,2,1"   # busy panels: status polls / wait loops are real transfers too
    pre = ctx.harness([PN.line(sid, p, ops, sched=SCHED) for (sid, p, ops) in base], "v3")
    ranges = transfer_ranges(pre)
    lines = []
    stats = {"faults": 0, "ops": 0, "exhaustive_panels": []}
    exhaustive = ("epd1in02", "epd1in54c", "epd2in13bc") if tier != "quick" else ()
    for (sid, p, ops) in base:
        per_op = ranges.get(sid, [])
        start = 0
        rec = ["wake", f"upd,pos:{p.frame()}", "disp"]
        twin_done = False
        for oi, groups in enumerate(per_op):
            # fault positions inside this op
            idxs = []
            pos = start
            for (dc, ln, cnt) in groups:
                if cnt <= 24 or p.name in exhaustive:
                    cand = list(range(pos, pos + cnt))
                else:
                    cand = sorted({pos, pos + 1, pos + cnt - 1, pos + cnt - 2} | {pos + rnd.randrange(cnt) for _ in range(5)})
                idxs += cand
                pos += cnt
            total = pos - start
            # the op under test is the LAST unit (ops after `new`), and `new` itself for the bare scenario
            prefixed = re.search(r"-s\d+x\d+$", sid) is not None
            is_target = (len(ops) == 1 and oi == 0) or (len(ops) > 1 and oi >= (2 if prefixed else 1))
            if is_target and idxs:
                lim = (10 if prefixed else 12) if tier == "quick" else (24 if prefixed else 60)
                if p.name in exhaustive:
                    lim = 10 ** 9
                if len(idxs) > lim:
                    # (wave 15) the first two and the LAST FOUR transfers of the call are always kept, and so
                    # is every command / parameter transfer (groups of <= 24 transfers; capped at 40): a
                    # refresh trigger in the MIDDLE of a compound call is where "the step failed but
                    # something still follows" lives.  Bulk bursts contribute their sampled points.
                    keep = set(idxs[:2]) | set(idxs[-4:])
                    small, pos2 = [], start
                    for (dc, ln, cnt) in groups:
                        if cnt <= 24:
                            small += list(range(pos2, pos2 + cnt))
                        pos2 += cnt
                    keep |= set(small if len(small) <= 40 else rnd.sample(small, 40))
                    keep |= set(rnd.sample(idxs, max(0, lim - len(keep))))
                    idxs = sorted(keep)
                opname = ops[oi].split(",")[0]
                for kf in idxs:
                    # a failed constructor returns no driver: nothing to recover
                    lines.append(PN.line(f"{sid}-{opname}@{kf}", p, ops + (rec if opname != "new" else []), fault=kf, sched=SCHED))
                    stats["faults"] += 1
                if not twin_done:
                    lines.append(PN.line(f"{sid}-twin@-", p, ops + rec, sched=SCHED))
                    twin_done = True
                stats["ops"] += 1
            start += total
    stats["exhaustive_panels"] = list(exhaustive)
    # the 12.48in driver (own bus: every `write` and every `flush` is a fallible call): every public
    # call after reset + init, the fault at every fallible call of short operations and at sampled
    # ones of the frame writes; recovery = reset; init; both planes; refresh, against the twin
    BIG = "panel=epd12in48b_v2 delay=none sched=1,0,1 raise=02,04,12 busylvl=0"
    bcalls = ["init,0101", "mode,1031", "d1,r:1:326", "d2,r:2:163", "d1p,640,488,16,8,r:3:4", "d2p,0,0,64,2,r:4:16", "refresh", "brefresh",
              "refreshp,640,480,16,24", "brefreshp,0,0,1304,984", "poweroff", "hibernate", "status", "lut,c,r:1:10", "lut,ww,z:0",
              "lut,bd,r:6:43", "busy"]
    brec = ["reset", "init,0000", "d1,r:7:163", "d2,r:8:163", "refresh"]
    def bline(sid, ops, fault="-"):
        return f"id={sid} {BIG} fault={fault} scribble=0 ops=" + ";".join(ops)
    bpre = ctx.harness([bline(f"c04-big-{j}", ["reset", "init,0000", c]) for j, c in enumerate(bcalls)], "v3")
    counts = {}
    cur, opi, n = None, 0, 0
    for l in bpre.splitlines():
        if l.startswith("S "):
            cur, opi, n = l[2:].strip(), 0, 0
            counts[cur] = []
        elif l.startswith("W "):
            n += sum(int(x.split("*")[1]) for x in l.split(" ")[2].split(","))
        elif l == "L":
            n += 1
        elif l.startswith("E "):
            counts[cur].append(n)
            n = 0
    nbig = 0
    for j, c in enumerate(bcalls):
        sid = f"c04-big-{j}"
        per = counts.get(sid, [])
        if len(per) < 3:
            continue
        start = per[0] + per[1]
        tot = per[2]
        cand = list(range(start, start + tot))
        lim = 12 if tier == "quick" else 80
        if len(cand) > lim:
            cand = sorted({cand[0], cand[1], cand[-1], cand[-2]} | set(rnd.sample(cand, lim - 4)))
        opname = c.split(",")[0]
        for kf in cand:
            lines.append(bline(f"{sid}-{opname}@{kf}", ["reset", "init,0000", c] + brec, fault=kf))
            nbig += 1
        lines.append(bline(f"{sid}-twin@-", ["reset", "init,0000", c] + brec))
    stats["big_panel_faults"] = nbig
    return {"v3": lines, "stats": stats}


def post_c04(outputs, all_lines):
    """recovery: the controller state after [failed op; wake_up; update; display] equals that of the twin"""
    dig = {}
    for feat, o in outputs:
        if o.startswith("O ") and " C04 " in o:
            f = o.split(" ", 3)
            dig[f[1]] = f[3]
    fails = []
    for sid, d in dig.items():
        if sid.endswith("@-") or "-new@" in sid:
            continue
        base = sid.rsplit("-", 1)[0]
        twin = dig.get(base + "-twin@-")
        if twin is not None and twin != d:
            line = all_lines.get(("v3", sid), "")
            mp = re.search(r"panel=(\S+)", line)
            panel = mp.group(1) if mp else sid.split("-")[1]
            opname = sid.rsplit("-", 1)[1].split("@")[0]
            fails.append(("v3", sid, f"site={panel}/{opname} reason=state-after-recovery-differs got={d.replace(' ', ';')} want={twin.replace(' ', ';')}"))
    return fails, len(dig)


def post_c12(outputs, all_lines):
    dig = {}
    for feat, o in outputs:
        if o.startswith("O ") and " C12 " in o:
            f = o.split(" ", 3)
            dig[f[1]] = f[3]
    fails = []
    for sid, d in dig.items():
        if sid.endswith("@1"):
            twin = dig.get(sid[:-2] + "@0")
            if twin is not None and twin != d:
                line = all_lines.get(("v3", sid), "")
                mp = re.search(r"panel=(\S+)", line)
                panel = mp.group(1) if mp else sid.split("-")[1]
                fails.append(("v3", sid, f"site={panel}/history reason=wire-depends-on-buffer-after-return got={d} want={twin}"))
    return fails, len(dig) // 2


def widen_c14(panel_names, tier, seed):
    """a hashed RGB domain disagrees with the model: single values on a 17-step grid of the cube,
    the neighbourhood of every palette colour and of the grey / orange entries, judged one by one
    (brightness-nearest for Color, minimal squared distance for OctColor)"""
    vals = []
    g = list(range(0, 256, 15))
    for r in g:
        for gg in g:
            for b in g:
                vals.append((r, gg, b))
    pal = [(0, 0, 0), (255, 255, 255), (0, 255, 0), (0, 0, 255), (255, 0, 0), (255, 255, 0), (255, 128, 0), (128, 128, 128)]
    for (r, gg, b) in pal:
        for d in (-3, -1, 1, 3):
            for ch in range(3):
                v = [r, gg, b]
                v[ch] = min(255, max(0, v[ch] + d))
                vals.append(tuple(v))
    vals += [(127, 127, 127), (0, 66, 129), (0, 255, 255), (191, 191, 191), (64, 64, 64), (127, 128, 128), (190, 190, 190), (192, 192, 192)]
    # candidates from a scan of the WHOLE RGB888 cube by the harness (a search aid with its own
    # reference distance; whatever it proposes is judged by the model's oracle like every other value)
    try:
        import subprocess
        hb = os.path.join(os.path.dirname(os.path.dirname(os.path.abspath(__file__))), "harness", "target", "debug", "epdharness")
        r_ = subprocess.run([hb], input=pure_line("scan", ["color,rgbscan,1,0"]) + "\n", stdout=subprocess.PIPE, text=True, timeout=600)
        m = re.search(r"CAND=([0-9.;]+)", r_.stdout)
        if m:
            for t in m.group(1).split(";"):
                vals.append(tuple(int(x) for x in t.split(".")))
    except Exception as e:   # the scan is optional
        sys.stderr.write(f"rgbscan skipped: {e}\n")
    lines = []
    for i in range(0, len(vals), 60):
        lines.append(pure_line(f"w14-{i // 60}", [f"color,rgbone,888,{r},{gg},{b}" for (r, gg, b) in vals[i:i + 60]]))
    return lines


def widen_c05(panel_names, tier, seed):
    """search around a broken correspondence: every (mode prefix, A, B) of the panel's alphabet,
    every episode at least one poll long, every idle-delay class"""
    rnd = random.Random(seed * 31 + 5)
    lines = []
    for p in each_panel():
        if p.name not in panel_names:
            continue
        A = alphabet(p, rnd, small=True)
        modes = [[]] + [u for u in A if u[0] in ("lut,quick", "refresh,quick", "lut,full")]
        k = 0
        for m in modes:
            for a in A:
                for b in A:
                    for sched in ("1,1,1,1,1,1,1,1,1,1,1,1,1,1", "3,2,1,3,2,1,3,2,1,3,2,1,3,2"):
                        lines.append(PN.line(f"w05-{p.name}-{k}", p, ["new"] + m + a + b, sched=sched, delay=rnd.choice(["none", "0", "7"])))
                        k += 1
    return lines


def widen_hist(panel_names, tier, seed):
    """search around a broken correspondence for the history properties: all histories of length
    <= 3 whose first unit is a mode-setting one, and all of length 2, with a probe"""
    rnd = random.Random(seed * 31 + 2)
    lines = []
    for p in each_panel():
        if p.name not in panel_names:
            continue
        A = alphabet(p, rnd, small=True) + whole_panel_partials(p, rnd)
        modes = [u for u in A if u[0].split(",")[0] in ("lut", "refresh", "bg", "wake", "border")]
        hs = [[u, v] for u in A for v in A] + [[m, u, v] for m in modes for u in A for v in A]
        mine = []
        for i, h in enumerate(hs):
            ops = ["new"] + [o for u in h for o in u] + [f"upd,pos:{p.frame()}", "disp"]
            mine.append(PN.line(f"wh-{p.name}-{i}", p, ops, sched=sched_for(rnd)))
        keys = {settings_key(l.split(" ops=", 1)[1].split(";")) for l in mine}
        for j, key in enumerate(sorted(keys)):
            mine.append(PN.line(f"wtw-{p.name}-{j}", p, ["new"] + list(key) + [f"upd,pos:{p.frame()}", "disp"], sched=sched_for(rnd)))
        lines += mine
    return lines


def gen_c15_core(tier, seed):
    """the 12.48in driver: windows on a grid + every seam / edge straddle, buffers of 1 row, k rows
    and the whole window, both planes, all 32 configurations; every public call for pin release"""
    rnd = random.Random(seed * 7919 + 15)
    W, H, SX, SY = 1304, 984, 648, 492
    cfgs = [f"{a}{b}{c}{d}" for a in "01" for b in "01" for c in "0123" for d in "01"]
    stats = {"windows": 0, "seam_x": 0, "seam_y": 0, "edge": 0, "rows1": 0, "rowsk": 0, "full": 0,
             "misaligned": 0, "outside": 0, "badlen": 0, "empty_window": 0}

    def bline(sid, ops, sched="-"):
        return (f"id={sid} panel=epd12in48b_v2 delay=none sched={sched} raise=02,04,12 busylvl=0 "
                f"fault=- scribble=0 ops=" + ";".join(ops))
    xs = [0, 8, 320, SX - 16, SX - 8, SX, SX + 8, 976, W - 16, W - 8]
    ys = [0, 1, 245, SY - 2, SY - 1, SY, SY + 1, 738, H - 2, H - 1]
    wins = set()
    for x in xs:
        for w in (8, 16, 24, 64, 328, SX, W - SX, W):
            if x + w > W:
                continue
            for y in ys:
                for h in (1, 2, 3, 16, SY, SY + 1, H):
                    if y + h <= H:
                        wins.add((x, y, w, h))
    wins = sorted(wins)
    # all windows straddling a seam or touching an edge are kept; the interior grid is sampled
    def kind(win):
        x, y, w, h = win
        k = []
        if x < SX < x + w:
            k.append("seam_x")
        if y < SY < y + h:
            k.append("seam_y")
        if x == 0 or y == 0 or x + w == W or y + h == H:
            k.append("edge")
        return k
    special = [w_ for w_ in wins if kind(w_)]
    plain = [w_ for w_ in wins if not kind(w_)]
    n_special = 260 if tier == "quick" else len(special)
    n_plain = 60 if tier == "quick" else len(plain)
    # quick keeps every x-straddle/y-straddle combination class at least once: stratify by (x, w) and (y, h)
    def stratified(ws, n):
        if len(ws) <= n:
            return list(ws)
        rnd.shuffle(ws)
        seen, out, rest = set(), [], []
        for w_ in ws:
            key1, key2 = (w_[0], w_[2]), (w_[1], w_[3])
            if key1 not in seen or key2 not in seen:
                seen.add(key1); seen.add(key2); out.append(w_)
            else:
                rest.append(w_)
        return (out + rest)[:max(n, len(out))]
    chosen = stratified(special, n_special) + stratified(plain, n_plain)
    lines = []
    ops = []
    k = 0
    area_cap = 40000 if tier == "quick" else 200000
    for i, win in enumerate(chosen):
        x, y, w, h = win
        stride = w // 8
        stats["windows"] += 1
        for kk in kind(win):
            stats[kk] += 1
        plane = "d1p" if (i + seed) % 2 == 0 else "d2p"
        # buffer shapes: one row, k rows, the whole window (capped in size; the cap is lifted for a few below)
        shapes = [1]
        if h > 2:
            shapes.append(rnd.randint(2, min(h - 1, 7)))
        if stride * h <= area_cap:
            shapes.append(h)
        for rows in shapes:
            stats["rows1" if rows == 1 else ("full" if rows == h else "rowsk")] += 1
            ops.append(f"{plane},{x},{y},{w},{h},r:{rnd.randint(1, 9999)}:{stride * rows}")
            if len(ops) >= 6:
                cfg = cfgs[k % len(cfgs)]
                lines.append(bline(f"c15-w{k}", ["reset", f"init,{cfg}"] + ops)); k += 1
                ops = []
    if ops:
        lines.append(bline(f"c15-w{k}", ["reset", f"init,{cfgs[k % len(cfgs)]}"] + ops)); k += 1
    # full frames: both planes, whole buffer / one row / k rows, under every configuration
    full = W // 8 * H
    for j, cfg in enumerate(cfgs):
        n = [W // 8, W // 8 * 3, full, W // 8 * 41][j % 4] if (tier == "thorough" or j < 8) else [W // 8, W // 8 * 5][j % 2]
        pl = "d1" if j % 2 == 0 else "d2"
        lines.append(bline(f"c15-f{j}", ["reset", f"init,{cfg}", f"{pl},r:{j + 1}:{n}", f"mode,{cfgs[(j * 7 + 3) % 32]}",
                                        f"{'d2' if pl == 'd1' else 'd1'},r:{j + 50}:{W // 8 * 2}"]))
    # whole-panel partial windows and the four exact sub-display rectangles with full buffers
    for j, (x, y, w, h) in enumerate([(0, 0, W, H), (0, 0, SX, SY), (SX, 0, W - SX, SY), (0, SY, SX, H - SY), (SX, SY, W - SX, H - SY),
                                      (SX - 8, SY - 1, 16, 2), (0, SY - 1, W, 2), (SX - 8, 0, 16, H)]):
        lines.append(bline(f"c15-q{j}", ["reset", "init,0000", f"d1p,{x},{y},{w},{h},r:{j + 7}:{w // 8 * h}", f"d2p,{x},{y},{w},{h},pos:{w // 8 * h}"]))
        stats["full"] += 2
    # inputs the driver rejects or that lie outside the property's quantifier: correspondence only
    rej = []
    for (x, y, w, h, n) in [(4, 0, 8, 1, 1), (0, 0, 12, 2, 3), (1, 1, 1, 1, 1), (641, 490, 15, 4, 8)]:
        rej.append([f"d1p,{x},{y},{w},{h},r:1:{n}"]); stats["misaligned"] += 1
    for (x, y, w, h, n) in [(1296, 0, 16, 2, 4), (0, 980, 8, 8, 8), (1304, 0, 8, 1, 1), (0, 984, 8, 1, 1), (1280, 970, 64, 30, 8 * 30), (2000, 2000, 8, 8, 8)]:
        rej.append([f"d2p,{x},{y},{w},{h},r:2:{n}"]); stats["outside"] += 1
    for (x, y, w, h, n) in [(0, 0, 16, 4, 3), (640, 490, 16, 4, 7), (0, 0, 1304, 3, 200), (0, 0, 16, 2, 0)]:
        rej.append([f"d1p,{x},{y},{w},{h},r:3:{n}"]); stats["badlen"] += 1
    rej.append(["d1,z:0"]); rej.append([f"d2,r:9:{W // 8 + 1}"]); stats["badlen"] += 2
    for (x, y, w, h) in [(0, 0, 0, 0), (8, 8, 0, 4), (8, 8, 8, 0), (648, 492, 0, 0)]:
        rej.append([f"d1p,{x},{y},{w},{h},r:4:8"]); stats["empty_window"] += 1
    for j, o in enumerate(rej):
        lines.append(bline(f"c15-r{j}", ["reset", "init,0010"] + o + ["busy"]))
    # every public call, for the release of the lines (busy schedules vary)
    calls = ["reset", "init,0101", "mode,1031", "refresh", "brefresh", "refreshp,640,480,16,24", "brefreshp,0,0,1304,984",
             "refreshp,0,0,8,1", "poweroff", "hibernate", "status", "busy", "lut,c,r:1:10", "lut,c,r:1:60", "lut,c,r:1:70",
             "lut,ww,r:2:42", "lut,ww,z:0", "lut,kw,r:3:59", "lut,wk,r:4:61", "lut,kk,r:5:1", "lut,bd,r:6:42", "lut,bd,r:6:43"]
    for j, c in enumerate(calls):
        for sc in (["-"] if tier == "quick" and j % 3 else ["-", sched_for(rnd, 8, 3)]):
            lines.append(bline(f"c15-p{j}-{len(lines)}", ["reset", "init,0000", c, "busy", c], sched=sc))
    # call sequences (driver state = control_state only): random mixes
    for j in range(20 if tier == "quick" else 200):
        seq = [rnd.choice(calls + ["d1p,640,488,16,8,r:1:4", "d2,r:2:326"]) for _ in range(rnd.randint(3, 7))]
        lines.append(bline(f"c15-m{j}", ["reset", "init,0000"] + seq, sched=sched_for(rnd, 16, 3)))
    return {"v3": lines, "stats": stats}


def gen_c15(tier, seed):
    g = gen_c15_core(tier, seed)
    tw = fifo_twins(g["v3"], every=3 if tier == "quick" else 1)
    g["v3"] = g["v3"] + tw
    g["stats"]["buffered_bus_twins"] = len(tw)
    return g


def _mk(gen, props, view, rule, feats=("v3",), assumptions=()):
    return {"props": props, "view": view, "gen": gen, "rule": rule, "feats": list(feats), "assumptions": list(assumptions)}


PROPS = {
    "C01": _mk(gen_c01, ["C01"], "logical", "every full-frame entry point of every panel (both 2.13in features) from a fresh driver with zero / position-coded / PRNG / all-ones buffers (thorough: + one-bit buffers at first, last and seam positions), followed by display; oracle: controller-model planes vs the panel's documented plane and encoding; non-trivial = scenarios whose buffer is not constant", feats=("v3", "v2")),
    "C02": dict(widen="widen_hist", post="post_c02", **_mk(gen_c02, ["C02"], "logical", "all histories of length <= 2 (quick; sampled to 120 / 40 pairs per small / large panel) or <= 4 (thorough, sampled) over the per-panel alphabet of protocol-respecting units, then a probe update_frame with a position-coded image; oracle: planes after the probe = the documented image at the panel origin")),
    "C04": dict(_mk(gen_c04, ["C04"], "raw", "every unit of every panel's alphabet (and construction itself): a fault injected at every command/parameter transfer and at both ends + 5 interior points of every bulk burst (sampled to 10 per op quick / 60 thorough; fully exhaustive on 1in02, 1in54c, 2in13bc in thorough), followed by wake_up, a full-frame update and display; a fault-free twin per history; oracle: error reported, no transfer after the failed one, no panic, controller state after recovery = twin's"), post="post_c04", ctx=True),
    "C05": dict(widen="widen_c05", **_mk(gen_c05, ["C05"], "raw", "ordered pairs of protocol units per panel x busy durations {0,1,3} (quick) / 0..7 (thorough) for every episode x idle-delay {None,0,1,250}; plus explicit wait after every unit; oracle: monitor over polls/delays/commands")),
    "C06": _mk(gen_c06, ["C06"], "logical", "every partial entry point x boundary windows (single byte, single row, each edge, full panel, x>=256, y around 256) + random aligned windows (quick 4-20, thorough 40-300 per panel; all aligned x,w on panels <= 152 px wide), planes pre-filled with PRNG data so that any byte outside the window that changes is seen"),
    "C07": _mk(gen_c07, ["C07"], "logical", "every panel x every background colour x {fresh, after clear, after sleep/wake, after a partial update} (thorough: + 6 random units); oracle: planes after clear_frame"),
    "C08": _mk(gen_c08, ["C08"], "logical", "[prefix; sleep; wake_up; suffix] with prefix/suffix from the alphabet (sampled), wake_up twice without sleep, three sleep/wake cycles; oracle: last transfer of sleep, reset pulse at wake_up, register writes of wake_up vs construction for the current settings"),
    "C09": dict(widen="widen_hist", **_mk(gen_c09, ["C09"], "logical", "the C02 histories; oracle: controller-model snapshot (asleep / initialised / powered) at every refresh trigger")),
    "C10": _mk(gen_c10, ["C10"], "raw", "every unit of every panel's alphabet + mixed sequences with all idle-delay settings + user buffers of 0,1,4095,4096,4097,8192,8193 bytes through every full-frame entry point; oracle: D/C discipline, transfer sizes, logical stream = the program's"),
    "C11": _mk(gen_c11, ["C11"], "raw", "every panel x {new, new+wake, sleep+wake, wake twice, clear+wake} x idle-delay {None,0,1,250} + the operations that re-initialise internally (2in9_v2 update_new_frame, 2in9d first partial update, 2in13_v2 set_refresh), both 2.13in features", feats=("v3", "v2")),
    "C12": dict(_mk(gen_c12, ["C12"], "raw", "histories up to length 2 (quick) / 3 (thorough) each run twice: buffers left intact vs every buffer complemented as soon as the borrowing call returns; oracle: the two wire traces are equal"), post="post_c12"),
    "C17": _mk(gen_c17, ["C17"], "logical", "panels with host-loaded tables x all sequences up to length 2 + sampled length 3 (quick) / 4 (thorough) over {select full, select quick, reload, sleep+wake, display}; features v3, v2 (2in13_v2) and alt (type-A LUT)", feats=("v3", "v2", "alt")),
    "C18": _mk(gen_c18, ["C18"], "logical", "every unit of every panel's alphabet + mixed sequences, features v3 / v2 / alt; oracle: decoded (command, #params) stream against the family tables, geometry registers", feats=("v3", "v2", "alt")),
    "C15": _mk(gen_c15, ["C15"], "raw", "the 12.48in driver on its own mock bus (4 chip selects, 2 D/C lines sampled per transfer): 8-aligned windows on a grid of 10 x-origins x 8 widths x 10 y-origins x 7 heights (every window that straddles the 648-column or 492-row seam or touches a panel edge in thorough; stratified sample in quick) x buffers of 1 row / k rows / the whole window, alternating planes, rotating through all 32 configurations; full frames under every configuration; the four exact sub-display rectangles; every public call twice for pin release; rejected inputs (misaligned, wrong length, empty) and windows outside the panel for correspondence only; oracle: per-chip data stream, chip-select exclusivity, partial-window registers, lines released", assumptions=["windows inside the 1304x984 panel (a byte outside the panel has no owning sub-display)"]),
    "C03": {
        "props": ["C03"], "view": "raw", "gen": gen_c03,
        "rule": "setpx batches: the real set_pixel / draw_iter is called for every point of [-3,W+3]x[-3,H+3] (mode grid) or the i32 extremes (mode ext) on a PRNG-filled buffer; after every call the whole exposed buffer is compared with its previous state and (index, new byte) of every changed byte is hashed; the model predicts the same hash. quick: 3 aliases (bw / tri with width 122 / oct) x 4 rotations x colours, all VarDisplay geometries 1..16^2 x 3 colour types x 4 rotations; thorough: all 27 aliases x all colours, geometries to 40^2. non-trivial = batches that changed at least one byte",
        "assumptions": ["dev/test profile (i32 overflow panics)", "width, height < 2^30 (as i32 casts exact)"],
    },
    "C13": {
        "props": ["C13"], "view": "raw", "gen": gen_c13,
        "rule": "alias table printed from the compiled crate (27 rows: size(), buffer().len(), zero-init, halves, observed BWRBIT); VarDisplay::new for w,h in 0..=64 x 3 colour types x lengths {need-1, need, need+1, 0, accepted-1, accepted}; vargrid: every pixel of every accepted buffer drawn (0..=20 quick / 0..=64 thorough); buffer_len hashed over 0..=512^2 (quick) / 0..=2048^2 (thorough)",
        "assumptions": [],
    },
    "C14": {
        "props": ["C14"], "view": "raw", "gen": gen_c14, "widen": "widen_c14",
        "rule": "every domain of the colour API printed by the real functions: all 256 bytes (from_u8, from_nibble, split_byte), all colours (bit/byte/nibble/rgb/inverse), all 64 pairs, bitmask for 16 positions x 2 bwrbit x 13 colours, all raw values, BinaryColor, all 65536 Rgb565 and 32768 Rgb555 values, Rgb888: 4 strided samples of 275k values (quick) / all 2^24 (thorough); compared with the model and checked by the oracle (round trips, brightness-nearest spec); non-trivial = every op (each covers a whole domain)",
        "assumptions": ["embedded-graphics RGB types expose raw channel values r(),g(),b() with maxima 255/31/63 (documented contract)"],
    },
    "C16": {
        "props": ["C16"], "view": "raw", "gen": gen_c16,
        "rule": "rect ops: random/boundary u32 rectangles (incl. overflow and underflow cases), all pairs with fields in 0..=2 individually (pixel-set oracle evaluated on the implementation's results), hash of all pairs with fields in 0..=5 (quick) / 0..=8 (thorough); a case is non-trivial when both rectangles are non-empty",
        "assumptions": ["dev/test profile: u32 overflow panics (release wraps)"],
    },
}
