#!/usr/bin/env python3
"""Translator for the DATA part of epd-waveshare: regenerates lean/EpdVerif/Gen/*.lean from
/repo/src on every run.

Grammar handled (anything else that looks like a const/enum but cannot be parsed is a hard
error naming file and line, never a default):
  * `enum Name { Variant = <int>, ... }`          -> namespace Name, `def Variant : UInt8`
  * `const NAME: [u8; N] = [ints];` / `&[u8] = &[ints];` -> `def NAME : List UInt8`
  * `const NAME: <int type|usize> = <expr>;` with expr over literals, other consts of the
     same module, + - * / | & << >> and parentheses -> `def NAME : Nat`
  * `const NAME: bool = true|false;`            -> `def NAME : Bool`
  * `const NAME: <Color|TriColor|OctColor> = Type::Variant;` -> `def NAME : Nat` (colour index)
  * `#[cfg(feature = "f")]`, `#[cfg(not(any(feature = "f")))]` in front of a const: the
     const is emitted once per variant with a suffix (`_v2`, `_v3`, `_alt`, `_std`)
Consts of other types (Rect, Mode, CS struct literals) are reported in the SKIPPED list
(printed, and written to Gen/Skipped.lean as a comment) and are hand-modelled + covered by the
correspondence check.
"""
import os, re, sys, json, hashlib

SRC = sys.argv[1] if len(sys.argv) > 1 else "/repo/src"
OUT = sys.argv[2] if len(sys.argv) > 2 else os.path.join(os.path.dirname(__file__), "..", "lean", "EpdVerif", "Gen")

COLOR_IDX = {
    "Color": {"Black": 0, "White": 1},
    "TriColor": {"Black": 0, "White": 1, "Chromatic": 2},
    "OctColor": {"Black": 0, "White": 1, "Green": 2, "Blue": 3, "Red": 4, "Yellow": 5, "Orange": 6, "HiZ": 7},
}
INT_TYPES = {"u8", "u16", "u32", "u64", "usize", "i32", "CS"}
FEATURE_SUFFIX = {
    ('feature', 'epd2in13_v2'): '_v2',
    ('feature', 'epd2in13_v3'): '_v3',
    ('feature', 'type_a_alternative_faster_lut'): '_alt',
    ('notfeature', 'type_a_alternative_faster_lut'): '_std',
}


class GenError(Exception):
    pass


def strip_comments(text):
    out = []
    i = 0
    n = len(text)
    while i < n:
        c = text[i]
        if text.startswith("//", i):
            j = text.find("\n", i)
            if j < 0:
                j = n
            i = j
        elif text.startswith("/*", i):
            j = text.find("*/", i + 2)
            if j < 0:
                raise GenError("unterminated block comment")
            # keep newlines for line numbers
            out.append("\n" * text.count("\n", i, j + 2))
            i = j + 2
        elif c == '"':
            j = i + 1
            while j < n and text[j] != '"':
                if text[j] == "\\":
                    j += 1
                j += 1
            out.append(text[i:j + 1])
            i = j + 1
        else:
            out.append(c)
            i += 1
    return "".join(out)


def parse_int(tok):
    t = tok.replace("_", "")
    m = re.fullmatch(r"(0x[0-9a-fA-F]+|0b[01]+|0o[0-7]+|[0-9]+)(u8|u16|u32|u64|usize|i32)?", t)
    if not m:
        return None
    return int(m.group(1), 0)


def eval_expr(expr, env, where):
    # widening casts are value-preserving for the small constants of this crate; they are
    # dropped, and the result is range-checked against the declared type by the caller
    expr = re.sub(r"\s+as\s+(usize|u32|u64|i32)\b", "", expr)
    toks = re.findall(r"0x[0-9a-fA-F_]+(?:u8|u16|u32|usize)?|0b[01_]+|[0-9][0-9_]*(?:u8|u16|u32|usize)?|[A-Za-z_][A-Za-z0-9_]*|<<|>>|[-+*/|&()]", expr)
    if "".join(toks) != re.sub(r"\s+", "", expr):
        raise GenError(f"{where}: cannot tokenise const expression `{expr}`")
    py = []
    for t in toks:
        v = parse_int(t)
        if v is not None:
            py.append(str(v))
        elif re.fullmatch(r"[A-Za-z_][A-Za-z0-9_]*", t):
            if t in ("as", "u8", "u16", "u32", "usize"):
                raise GenError(f"{where}: casts not supported in `{expr}`")
            if t not in env:
                raise GenError(f"{where}: unknown identifier `{t}` in `{expr}`")
            py.append(str(env[t]))
        elif t == "/":
            py.append("//")
        else:
            py.append(t)
    try:
        return int(eval(" ".join(py), {"__builtins__": {}}, {}))
    except Exception as e:
        raise GenError(f"{where}: cannot evaluate `{expr}`: {e}")


def cfg_tag(attr):
    a = re.sub(r"\s+", "", attr)
    m = re.fullmatch(r'#\[cfg\(feature="([^"]+)"\)\]', a)
    if m:
        return ('feature', m.group(1))
    m = re.fullmatch(r'#\[cfg\(not\(any\(feature="([^"]+)"\)\)\)\]', a)
    if m:
        return ('notfeature', m.group(1))
    m = re.fullmatch(r'#\[cfg\(not\(feature="([^"]+)"\)\)\]', a)
    if m:
        return ('notfeature', m.group(1))
    return None


def parse_module(moddir, files):
    """returns dict: enums {name: [(variant,val)]}, consts [(name, kind, value)], skipped [..]"""
    enums = {}
    consts = []
    skipped = []
    env = {}
    for fn in files:
        path = os.path.join(moddir, fn)
        if not os.path.exists(path):
            continue
        text = strip_comments(open(path).read())
        # cut test modules
        m = re.search(r"#\[cfg\(test\)\]\s*mod\s+\w+\s*\{", text)
        if m:
            text = text[:m.start()]
        # enums
        for em in re.finditer(r"\benum\s+(\w+)\s*\{", text):
            name = em.group(1)
            depth = 1
            j = em.end()
            while depth > 0:
                if text[j] == "{":
                    depth += 1
                elif text[j] == "}":
                    depth -= 1
                j += 1
            body = text[em.end():j - 1]
            line = text.count("\n", 0, em.start()) + 1
            variants = []
            body_noattr = re.sub(r"#\[[^\]]*\]", "", body)
            for item in body_noattr.split(","):
                item = item.strip()
                if not item:
                    continue
                vm = re.fullmatch(r"(\w+)\s*=\s*(\S+)", item)
                if vm:
                    v = parse_int(vm.group(2))
                    if v is None:
                        raise GenError(f"{path}:{line}: enum {name}: bad discriminant `{item}`")
                    variants.append((vm.group(1), v))
                elif re.fullmatch(r"\w+", item):
                    variants.append((item, None))
                else:
                    # tuple / struct variants: not a command table
                    variants = None
                    break
            if variants and all(v is not None for _, v in variants):
                key = name
                k = 2
                while key in enums:
                    key = f"{name}{k}"
                    k += 1
                enums[key] = variants
        # consts (top level only: start of line, optional pub)
        for cm in re.finditer(r"(?m)^((?:[ \t]*#\[[^\n]*\][ \t]*\n|[ \t]*\n)*)(?:pub(?:\(crate\))?\s+)?const\s+(\w+)\s*:\s*((?:\[[^\]]*\]|&\s*\[[^\]]*\]|[^=;\[])+?)\s*=\s*", text):
            attrs, name, ty = cm.group(1), cm.group(2), cm.group(3).strip()
            line = text.count("\n", 0, cm.start(2)) + 1
            # indentation check: skip associated consts inside impl/trait blocks
            linestart = text.rfind("\n", 0, cm.start(2)) + 1
            if text[linestart:cm.start(2)].startswith((" ", "\t")):
                continue
            # find the terminating ';' at depth 0
            j = cm.end()
            depth = 0
            while True:
                ch = text[j]
                if ch in "([{":
                    depth += 1
                elif ch in ")]}":
                    depth -= 1
                elif ch == ";" and depth == 0:
                    break
                j += 1
            rhs = text[cm.end():j].strip()
            suffix = ""
            for a in re.findall(r"#\[[^\]]*\]", attrs):
                if "cfg" in a:
                    tag = cfg_tag(a)
                    if tag is None or tag not in FEATURE_SUFFIX:
                        raise GenError(f"{path}:{line}: unsupported cfg attribute `{a}` on const {name}")
                    suffix = FEATURE_SUFFIX[tag]
            where = f"{path}:{line}"
            full = name + suffix
            if re.fullmatch(r"\[\s*u8\s*;\s*[^\]]+\]", ty) or re.fullmatch(r"&\s*\[\s*u8\s*\]", ty):
                body = rhs.lstrip("&").strip()
                if not (body.startswith("[") and body.endswith("]")):
                    raise GenError(f"{where}: byte table {name}: unexpected initialiser")
                items = [t.strip() for t in body[1:-1].split(",") if t.strip()]
                vals = []
                for t in items:
                    v = parse_int(t)
                    if v is None or not (0 <= v < 256):
                        raise GenError(f"{where}: byte table {name}: bad element `{t}`")
                    vals.append(v)
                lm = re.fullmatch(r"\[\s*u8\s*;\s*([^\]]+)\]", ty)
                if lm:
                    declared = eval_expr(lm.group(1), env, where)
                    if declared != len(vals):
                        raise GenError(f"{where}: byte table {name}: declared {declared} elements, found {len(vals)}")
                consts.append((full, "bytes", vals))
            elif ty == "bool":
                if rhs not in ("true", "false"):
                    raise GenError(f"{where}: bool const {name}: `{rhs}`")
                consts.append((full, "bool", rhs == "true"))
            elif ty in INT_TYPES:
                v = eval_expr(rhs, env, where)
                env[name] = v
                consts.append((full, "nat", v))
            elif ty in COLOR_IDX:
                vm = re.fullmatch(rf"{ty}\s*::\s*(\w+)", rhs)
                if not vm or vm.group(1) not in COLOR_IDX[ty]:
                    raise GenError(f"{where}: colour const {name}: `{rhs}`")
                consts.append((full, "nat", COLOR_IDX[ty][vm.group(1)]))
                consts.append((full + "_TYPE", "str", ty))
            elif ty == "Rect":
                fields = dict(re.findall(r"(\w+)\s*:\s*([^,}]+)", rhs))
                try:
                    vals = [eval_expr(fields[k].strip(), env, where) for k in ("x", "y", "w", "h")]
                except KeyError:
                    raise GenError(f"{where}: Rect const {name}: `{rhs}`")
                consts.append((full, "rect", vals))
            else:
                skipped.append((where, name, ty))
        # Display alias: `pub type DisplayX = crate::graphics::Display<WIDTH, HEIGHT, bwr, {expr}, Colour>;`
        for am in re.finditer(r"pub\s+type\s+(\w+)\s*=\s*crate::graphics::Display<\s*(\w+)\s*,\s*(\w+)\s*,\s*(true|false)\s*,\s*\{([^}]*)\}\s*,\s*(\w+)\s*,?\s*>\s*;", text):
            line = text.count("\n", 0, am.start()) + 1
            where = f"{path}:{line}"
            aname, wname, hname, bwr, expr, col = am.groups()
            if col not in COLOR_IDX:
                raise GenError(f"{where}: alias {aname}: unknown colour type {col}")
            def bl(m):
                args = m.group(1).split(",")
                if len(args) != 2:
                    raise GenError(f"{where}: alias {aname}: buffer_len arity")
                a0 = eval_expr(args[0].strip(), env, where)
                a1 = eval_expr(args[1].strip(), env, where)
                return str((a0 + 7) // 8 * a1)
            expr2 = re.sub(r"buffer_len\(([^()]*)\)", bl, expr.strip())
            consts.append(("ALIAS_NAME", "str", aname))
            consts.append(("ALIAS_W", "nat", eval_expr(wname, env, where)))
            consts.append(("ALIAS_H", "nat", eval_expr(hname, env, where)))
            consts.append(("ALIAS_BWR", "bool", bwr == "true"))
            consts.append(("ALIAS_BYTECOUNT", "nat", eval_expr(expr2, env, where)))
            consts.append(("ALIAS_KIND", "str", col))
            consts.append(("ALIAS_KIND_CODE", "nat", {"Color": 0, "TriColor": 1, "OctColor": 2}[col]))
    return enums, consts, skipped


def lean_ident(s):
    return s


def emit_module(modname, enums, consts):
    ns = modname[0].upper() + modname[1:]
    lines = [f"-- GENERATED by tools/gen_consts.py from /repo/src/{modname} — do not edit",
             "namespace EpdVerif.Gen." + ns, ""]
    for name, kind, val in consts:
        if kind == "bytes":
            body = ", ".join(f"0x{v:02X}" for v in val)
            lines.append(f"def {name} : List UInt8 := [{body}]")
            lines.append(f"def {name}_LEN : Nat := {len(val)}")
            lines.append(f"@[simp] theorem {name}_length : {name}.length = {len(val)} := by decide +kernel")
        elif kind == "bool":
            lines.append(f"def {name} : Bool := {'true' if val else 'false'}")
        elif kind == "nat":
            lines.append(f"def {name} : Nat := {val}")
        elif kind == "str":
            lines.append(f"def {name} : String := \"{val}\"")
        elif kind == "rect":
            lines.append(f"def {name} : Nat × Nat × Nat × Nat := ({val[0]}, {val[1]}, {val[2]}, {val[3]})")
    lines.append("")
    for ename, variants in enums.items():
        lines.append(f"namespace {ename}")
        seen = set()
        for v, val in variants:
            if v in seen:
                continue
            seen.add(v)
            if 0 <= val < 256:
                lines.append(f"def {v} : UInt8 := 0x{val:02X}")
            else:
                lines.append(f"def {v} : Nat := {val}")
        body = ", ".join(f"0x{val:02X}" for _, val in variants if 0 <= val < 256)
        lines.append(f"def all : List UInt8 := [{body}]")
        lines.append(f"end {ename}")
        lines.append("")
    lines.append("end EpdVerif.Gen." + ns)
    return "\n".join(lines) + "\n"


def main():
    os.makedirs(OUT, exist_ok=True)
    mods = sorted(d for d in os.listdir(SRC) if os.path.isdir(os.path.join(SRC, d)))
    all_skipped = []
    summary = {}
    imports = []
    for m in mods:
        enums, consts, skipped = parse_module(os.path.join(SRC, m), ["command.rs", "constants.rs", "config.rs", "mod.rs"])
        all_skipped += skipped
        text = emit_module(m, enums, consts)
        ns = m[0].upper() + m[1:]
        path = os.path.join(OUT, ns + ".lean")
        old = open(path).read() if os.path.exists(path) else None
        if old != text:
            with open(path, "w") as f:
                f.write(text)
        imports.append(f"import EpdVerif.Gen.{ns}")
        summary[m] = {"enums": {k: len(v) for k, v in enums.items()},
                      "consts": [c[0] for c in consts]}
    # top-level: lib.rs buffer_len is code, not data; nothing to emit
    idx = "-- GENERATED index\n" + "\n".join(imports) + "\n"
    idx += "/-! skipped (hand-modelled) consts:\n" + "\n".join(f"  {w} {n} : {t}" for w, n, t in all_skipped) + "\n-/\n"
    path = os.path.join(OUT, "..", "GenAll.lean")
    old = open(path).read() if os.path.exists(path) else None
    if old != idx:
        with open(path, "w") as f:
            f.write(idx)
    # remove stale generated files
    keep = {i.split(".")[-1] + ".lean" for i in imports}
    for fn in os.listdir(OUT):
        if fn.endswith(".lean") and fn not in keep:
            os.remove(os.path.join(OUT, fn))
    digest = hashlib.sha256(json.dumps(summary, sort_keys=True).encode()).hexdigest()[:16]
    print(json.dumps({"modules": len(mods), "enums": sum(len(s["enums"]) for s in summary.values()),
                      "consts": sum(len(s["consts"]) for s in summary.values()),
                      "skipped": [f"{n}:{t}" for _, n, t in all_skipped], "digest": digest}))


if __name__ == "__main__":
    try:
        main()
    except GenError as e:
        print("GEN-ERROR: " + str(e), file=sys.stderr)
        sys.exit(2)
