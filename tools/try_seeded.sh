#!/bin/bash
# usage: tools/try_seeded.sh <worktree> <name> <prop> [more props...]
# confirms a seeded change in its scratch worktree (demo fails with / passes without, baseline
# tests still pass), stores it under /verif/seeded/<name>/, then runs the given checks against
# /repo with the patch applied and undoes it straight afterwards.
set -u
WT=$1; NAME=$2; shift 2
OUT=/verif/seeded/$NAME
mkdir -p $OUT
cp $WT/out/patch.diff $WT/out/meta.json $OUT/ 2>/dev/null
cp $WT/out/demo_mutation.rs $OUT/ 2>/dev/null || cp $WT/tests/demo_mutation.rs $OUT/
cd $WT && git checkout -q -- src && mkdir -p tests && cp $OUT/demo_mutation.rs tests/demo_mutation.rs
echo "== demo WITHOUT the change"; cargo test --offline --test demo_mutation 2>&1 | grep "test result" | head -2; R0=${PIPESTATUS[0]}
git apply $OUT/patch.diff || { echo "PATCH DOES NOT APPLY"; exit 3; }
echo "== demo WITH the change"; cargo test --offline --test demo_mutation 2>&1 | grep "test result" | head -2
echo "== baseline tests WITH the change"; cargo test --offline --lib 2>&1 | grep "test result" | head -1
git checkout -q -- src
cd /repo && git apply $OUT/patch.diff || { echo "PATCH DOES NOT APPLY TO /repo"; exit 3; }
RES=""
for P in "$@"; do
  echo "== vcheck $P with the change"
  (cd /verif && ./vcheck $P 2>&1 | grep -v "^KNOWN-FINDING\|^NOTE" | tail -3); RC=${PIPESTATUS[0]}
  RES="$RES $P"
done
git -C /repo checkout -- .
# restore evidence / replays produced against the mutated tree
cd /verif && git checkout -q -- evidence 2>/dev/null
echo "== done $NAME ($RES)"
